#!/bin/sh
# setup_cmd: offline; checks tool presence and warms caches. Everything is rebuilt from /repo by the checks themselves.
set -e
cd "$(dirname "$0")"
export CARGO_NET_OFFLINE=true
mkdir -p .build/verus evidence replays
command -v verus >/dev/null || { echo "verus missing"; exit 1; }
command -v python3 >/dev/null || { echo "python3 missing"; exit 1; }
cargo kani --version >/dev/null 2>&1 || echo "warning: cargo kani not available"
# warm Verus (first run loads vstd)
cat > .build/verus/warm.rs <<'EOR'
use vstd::prelude::*;
verus!{ fn warm(x: u8) -> (r: u8) ensures r == x { x } }
fn main(){}
EOR
(cd .build/verus && verus warm.rs >/dev/null 2>&1 || true)
[ -x ./setup_kani.sh ] && ./setup_kani.sh || true
echo "setup ok"
