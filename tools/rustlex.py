"""Minimal Rust lexer + item splitter used by the mechanical extractor.

It understands exactly what is needed to cut items out of /repo's sources without ever
mis-reading a brace: line/block (nested) comments, string / raw string / byte string
literals, char literals vs lifetimes, identifiers, numbers, punctuation.
"""
import re

class Tok:
    __slots__ = ("kind", "text", "start", "end")
    def __init__(self, kind, text, start, end):
        self.kind, self.text, self.start, self.end = kind, text, start, end
    def __repr__(self):
        return f"Tok({self.kind},{self.text!r},{self.start})"

_ident_re = re.compile(r"[A-Za-z_][A-Za-z0-9_]*")
_num_re = re.compile(r"[0-9][A-Za-z0-9_]*(\.[0-9][A-Za-z0-9_]*)?")
_raw_re = re.compile(r"b?r(#*)\"")

class LexError(Exception):
    pass

def tokenize(src):
    toks = []
    i, n = 0, len(src)
    while i < n:
        c = src[i]
        if c.isspace():
            j = i
            while j < n and src[j].isspace():
                j += 1
            toks.append(Tok("ws", src[i:j], i, j)); i = j; continue
        if src.startswith("//", i):
            j = src.find("\n", i)
            j = n if j < 0 else j
            toks.append(Tok("comment", src[i:j], i, j)); i = j; continue
        if src.startswith("/*", i):
            depth, j = 1, i + 2
            while j < n and depth:
                if src.startswith("/*", j): depth += 1; j += 2
                elif src.startswith("*/", j): depth -= 1; j += 2
                else: j += 1
            toks.append(Tok("comment", src[i:j], i, j)); i = j; continue
        m = _raw_re.match(src, i)
        if m:
            hashes = m.group(1)
            close = '"' + hashes
            j = src.find(close, m.end())
            if j < 0: raise LexError("unterminated raw string")
            j += len(close)
            toks.append(Tok("str", src[i:j], i, j)); i = j; continue
        if c == '"' or (c == 'b' and i + 1 < n and src[i+1] == '"'):
            j = i + (2 if c == 'b' else 1)
            while j < n and src[j] != '"':
                j += 2 if src[j] == '\\' else 1
            j += 1
            toks.append(Tok("str", src[i:j], i, j)); i = j; continue
        if c == "'" or (c == 'b' and i + 1 < n and src[i+1] == "'"):
            k = i + (1 if c == 'b' else 0)
            # char literal or lifetime?
            if k + 1 < n and src[k+1] == '\\':
                j = k + 2
                while j < n and src[j] != "'":
                    j += 1
                j += 1
                toks.append(Tok("char", src[i:j], i, j)); i = j; continue
            if k + 2 < n and src[k+2] == "'":
                j = k + 3
                toks.append(Tok("char", src[i:j], i, j)); i = j; continue
            m = _ident_re.match(src, k + 1)
            if m:
                toks.append(Tok("lifetime", src[i:m.end()], i, m.end())); i = m.end(); continue
            raise LexError(f"bad quote at {i}")
        m = _ident_re.match(src, i)
        if m:
            toks.append(Tok("ident", m.group(0), i, m.end())); i = m.end(); continue
        m = _num_re.match(src, i)
        if m:
            toks.append(Tok("num", m.group(0), i, m.end())); i = m.end(); continue
        toks.append(Tok("punct", c, i, i + 1)); i += 1
    return toks

OPEN = {"(": ")", "[": "]", "{": "}"}
CLOSE = {")", "]", "}"}

def code_toks(toks):
    return [t for t in toks if t.kind not in ("ws", "comment")]

def norm(toks):
    """whitespace/comment-insensitive text of a token list"""
    out = []
    prev = None
    for t in toks:
        if t.kind in ("ws", "comment"):
            continue
        if prev is not None and prev.kind in ("ident", "num", "lifetime") and t.kind in ("ident", "num", "lifetime"):
            out.append(" ")
        out.append(t.text)
        prev = t
    return "".join(out)

def match_close(ct, i):
    """ct: code tokens; ct[i] is an opener; return index of the matching closer"""
    depth = 0
    for j in range(i, len(ct)):
        t = ct[j]
        if t.kind == "punct":
            if t.text in OPEN: depth += 1
            elif t.text in CLOSE:
                depth -= 1
                if depth == 0:
                    return j
    raise LexError("unbalanced delimiters")

class Item:
    """An item (or sub-item): ct[lo:hi] are its code tokens; header = tokens up to the body brace or ';'"""
    def __init__(self, src, ct, lo, hi, body_open):
        self.src, self.ct, self.lo, self.hi, self.body_open = src, ct, lo, hi, body_open
    @property
    def start(self): return self.ct[self.lo].start
    @property
    def end(self): return self.ct[self.hi - 1].end
    @property
    def text(self): return self.src[self.start:self.end]
    @property
    def header(self):
        stop = self.body_open if self.body_open is not None else self.hi
        return norm(self.ct[self.lo:stop])
    def header_no_attrs(self):
        """header without leading #[...] attributes"""
        i = self.lo
        ct = self.ct
        while ct[i].text == "#" and ct[i+1].text in ("[", "!"):
            j = i + 1
            if ct[j].text == "!": j += 1
            i = match_close(ct, j) + 1
        stop = self.body_open if self.body_open is not None else self.hi
        return i, norm(ct[i:stop])
    def body_range(self):
        """indices (into ct) of the body's '{' and '}'"""
        if self.body_open is None: return None
        return self.body_open, self.hi - 1

def split_items(src, ct, lo, hi):
    """Split ct[lo:hi] (a file, or the inside of an impl/trait body) into items."""
    items = []
    i = lo
    while i < hi:
        start = i
        j = i
        body_open = None
        while j < hi:
            t = ct[j]
            if t.kind == "punct" and t.text in ("(", "["):
                j = match_close(ct, j) + 1; continue
            if t.kind == "punct" and t.text == "{":
                body_open = j
                j = match_close(ct, j) + 1
                # `struct X {..}` / `impl {..}` / `fn {..}` / `macro_rules! x {..}` end here;
                # a following ';' (e.g. `x! {..};`) is swallowed
                if j < hi and ct[j].text == ";" and norm(ct[start:body_open]).endswith("!"):
                    j += 1
                break
            if t.kind == "punct" and t.text == ";":
                j += 1; break
            j += 1
        items.append(Item(src, ct, start, j, body_open))
        i = j
    return items
