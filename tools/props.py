"""Which units decide which property.  MANIFEST.json is generated from this table (tools/gen_manifest.py)."""
import os, json
VERIF = os.path.dirname(os.path.dirname(os.path.abspath(__file__)))

def baseline_labels(unit, pid):
    """labels that verified on the unchanged tree (contracts/baseline_obligations.json)"""
    path = os.path.join(VERIF, "contracts", "baseline_obligations.json")
    if not os.path.exists(path):
        return []
    d = json.load(open(path))
    return [l for l, ps in d.get(unit, {}).items() if pid in ps]

PROPS = {
    "C19": {
        "title": "Value pointers faithfully record the path that was pushed",
        "level": "proof",
        "technique": "Verus: contracts on src/value.rs verbatim (ghost view path(): Seq<Step>; loop invariant on to_owned); unbounded",
        "design_ref": "DESIGN.md §4 C19",
        "units": [{"kind": "verus", "unit": "value"}],
        "text": "Every function of ValuePointerRef (push_key, push_index, is_origin, last_field, first_field, to_owned) is extracted from src/value.rs on each run and verified by Verus against a ghost view path(): Seq<Step>: push_* append exactly one step, is_origin <=> empty path, first/last_field equal recursive spec functions over the step sequence, to_owned lists exactly path() in order (loop invariant + termination). All paths, all lengths, unbounded.",
        "level_note": "Trusted: Verus/Z3; vstd specs for Vec::push, into_iter().rev().collect(), str::to_string; two stated std axioms (Option::or, Display for &str). Locations are only ever built by push_* from Origin, so 'any sequence of pushes' is induction over the two push contracts.",
        "assumptions": [],
    },
}

NOT_APPLICABLE = {
    "C20": "HTTP extractors are three-line async compositions of actix-web/axum extractors with deserr::deserialize; neither installed verifier can run or specify the frameworks (futures, pinning, runtime), so every obligation would be an assumed contract on actix/axum with nothing left to prove; the features are off by default and not compiled in the baseline.",
}
