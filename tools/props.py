"""Which units decide which property.  MANIFEST.json is generated from this table (tools/gen_manifest.py)."""
import os, json
VERIF = os.path.dirname(os.path.dirname(os.path.abspath(__file__)))

def baseline_labels(unit, pid):
    """labels that verified on the unchanged tree (contracts/baseline_obligations.json)"""
    path = os.path.join(VERIF, "contracts", "baseline_obligations.json")
    if not os.path.exists(path):
        return []
    d = json.load(open(path))
    return [l for l, ps in d.get(unit, {}).items() if pid in ps]

_CONTAINER_ASSUME = [
    "error-type contract (the clause 'as long as the error type itself keeps what it is handed'): DeserializeError::error appends exactly one Report event, MergeWithError::merge appends the handed error's events plus one Handover event, to the ghost trace; the Continue/Break answer is unconstrained",
    "value-source contract: Sequence::len/into_iter and Map::len/into_iter agree with the ghost views elems()/entries(); into_value is a function (spec_into_value)",
    "element/field types are only known through the Deserr trait contract (modular: a caller is checked against the callee's contract); integer/float/char scalars are shown to satisfy the executable form of that contract by the Kani scalar harnesses (C05)",
]

PROPS = {
    "C19": {
        "title": "Value pointers faithfully record the path that was pushed",
        "level": "proof",
        "technique": "Verus: contracts on src/value.rs verbatim (ghost view path(): Seq<Step>; loop invariant on to_owned); unbounded",
        "design_ref": "DESIGN.md §4 C19",
        "units": [{"kind": "verus", "unit": "value", "ce_harnesses": {"ValuePointerRef": ["value_paths"]}},
                  {"kind": "enum", "group": "value-paths", "harnesses": ["value_paths"], "bounds": "BOUNDED cross-check: every path of <= 6 steps over 2 keys and 2 indices (exhaustive native execution)"}],
        "text": "Every function of ValuePointerRef (push_key, push_index, is_origin, last_field, first_field, to_owned) is extracted from src/value.rs on each run and verified by Verus against a ghost view path(): Seq<Step>: push_* append exactly one step, is_origin <=> empty path, first/last_field equal recursive spec functions over the step sequence, to_owned lists exactly path() in order (loop invariant + termination). All paths, all lengths, unbounded.",
        "level_note": "Trusted: Verus/Z3; vstd specs for Vec::push, into_iter().rev().collect(), str::to_string; two stated std axioms (Option::or, Display for &str). Locations are only ever built by push_* from Origin, so 'any sequence of pushes' is induction over the two push contracts.",
        "assumptions": [],
    },
}

_IMPLS_UNIT = {"kind": "verus", "unit": "impls", "ce_harnesses": {
    "for Vec<T>": ["cont_vec"], "for [T; N]": ["cont_array2"], "for (A, B)": ["cont_tuple2"], "for (A, B, C)": ["cont_tuple3"], "for Option<T>": ["cont_option_box"], "for Box<T>": ["cont_option_box"],
    "for HashSet<T>": ["cont_sets"], "for BTreeSet<T>": ["cont_sets"], "for HashMap<Key, T>": ["cont_maps"], "for BTreeMap<Key, T>": ["cont_maps"]}}
_CONT_ENUM = {"kind": "enum", "group": "containers-enum", "harnesses": ["cont_vec", "cont_array2", "cont_tuple2", "cont_tuple3", "cont_option_box", "cont_sets", "cont_maps"],
              "bounds": "BOUNDED: exhaustive native execution; sequences / objects of <= 3 members (3-tuple: <= 4), values {Integer 0..3, Null, Boolean} (sets: {0,1,2,7,300,null}), map keys over {\"1\",\"2\",\"x\",\"300\"}, every Continue/Break answer sequence"}
_JSON_TARGET_UNIT = {"kind": "verus", "unit": "json_target"}
_JSON_TARGET_ASSUME = ["serde_json::Value as a target (unit json_target): the payload is a finite tree but its type is abstract, so the recursive reference semantics (only fault: a float JSON cannot hold, reported once at its location) is introduced by two axioms giving its defining equations; termination of the recursive exec function is not proved (exec_allows_no_decreases_clause); serde_json::{Value, Number, Map} are stand-in declarations mirroring the public API; the *contents* of the resulting document are not modelled (C13 scalars: Kani)"]
_IMPLS_FUNCS = "(), bool, String, Vec<T>, Option<T>, Box<T>, HashSet<T>, BTreeSet<T>, [T; N], (A,B), (A,B,C), HashMap<K,T>, BTreeMap<K,T>, take_cf_content, deserialize"

PROPS.update({
    "C01": {
        "title": "No reported error is ever lost: Ok only when nothing was reported",
        "level": "proof",
        "technique": "Verus: trait-level contracts on Deserr / DeserializeError / MergeWithError over a ghost trace of error()/merge() calls; every std container impl extracted from src/impls.rs and proved, unbounded, for every answer sequence",
        "design_ref": "DESIGN.md §3.3, §4 C01",
        "units": [_IMPLS_UNIT],
        "text": "For each std impl (" + _IMPLS_FUNCS + ") Verus proves, for all payloads, lengths and all Continue/Break answers: Ok ==> the payload has no fault (accepts), Err(e) ==> the ghost trace of e is non-empty, and the accumulator is None exactly while every child so far was accepted (loop invariant) -- so an accumulated error can neither be dropped nor a call succeed after a report. Derived types and serde_json::Value are decided by the Kani units when present in this check.",
        "level_note": "Relative to the error-type contract (trace view) and the value-source contract; derived structs/enums are outside Verus' reach and covered by bounded Kani harnesses only.",
        "assumptions": _CONTAINER_ASSUME,
    },
    "C02": {
        "title": "Keep-going error types receive every independent fault exactly once",
        "level": "proof",
        "technique": "Verus: postcondition `no stop answer ==> trace(e) == spec_trace(value, path)` where spec_trace is the keep-going reference semantics written from the statement; loop invariants carry it (acc_ok)",
        "design_ref": "DESIGN.md §3.3, §4 C02",
        "units": [_IMPLS_UNIT],
        "text": "spec_trace (per impl) is the in-order concatenation of the children's keep-going traces, each followed by one hand-over, or the single structural report (wrong kind, wrong arity, unparsable key). Verus proves for every std impl: if no call was answered Break then the trace of the returned error has exactly the length and the events of spec_trace (agree_until_stop + complete), for all payloads and lengths.",
        "level_note": "Relative to the trait contracts; masking rules (wrong container kind / arity hide children) are how spec_trace is defined, one clause each, from the property text.",
        "assumptions": _CONTAINER_ASSUME,
    },
    "C03": {
        "title": "A stop answer ends the work; fail-fast result = first keep-going report",
        "level": "proof",
        "technique": "Verus: postconditions agree_until_stop (every event up to and including the first stopped one equals the keep-going run) and stop_then_handover (after a stop only the hand-over to the parent can follow); accumulator invariant 'never ends on a stop'",
        "design_ref": "DESIGN.md §3.3, §4 C03",
        "units": [_IMPLS_UNIT],
        "text": "For every std impl and every answer sequence Verus proves: (S1) an event answered Break is the last event of the container it was produced in -- the only call that can follow is the parent's hand-over; (U) all events up to and including the first Break are the events of the keep-going run at the same positions. Hence an always-Break error type returns exactly spec_trace[0] followed by hand-overs.",
        "level_note": "Relative to the trait contracts. That JsonError/QueryParamError always answer Break is decided separately (C14 unit) when present.",
        "assumptions": _CONTAINER_ASSUME,
    },
    "C04": {
        "title": "Every report points at the real culprit: location and payload match input",
        "level": "proof",
        "technique": "Verus: `requires under(merge_location, trace(other))` on MergeWithError::merge (checked at every call site), `under(location, trace(e))` postcondition, and event equality with spec_trace (path, actual value id, kind, accepted list, arity)",
        "design_ref": "DESIGN.md §3.3, §4 C04",
        "units": [_IMPLS_UNIT],
        "text": "Every merge call site must prove that the hand-over location is an ancestor-or-self of every event handed over; every returned trace lies under the location given; and (through agree_until_stop) each event carries the path, the identity and kind of the actual value, the accepted kinds / expected length that spec_trace computes from the payload at that position. Proved for every std impl at every index / key.",
        "level_note": "Relative to the trait contracts; value identity is an uninterpreted token (equal values have equal tokens). Derived types: Kani units.",
        "assumptions": _CONTAINER_ASSUME,
    },
    "C06": {
        "title": "Containers keep structure: order, arity, None-iff-null, set and map semantics",
        "level": "proof",
        "technique": "Verus: `Ok(v) ==> v.represents(value)` with per-impl ghost relation (Vec/array/tuple: element i from payload element i; Option: None iff null; Box transparent); arity errors are part of spec_trace",
        "design_ref": "DESIGN.md §4 C06",
        "units": [_IMPLS_UNIT, _CONT_ENUM],
        "text": "Set / map contents (HashSet, BTreeSet equal the set of elements; HashMap, BTreeMap key each entry by the parsed key; an unparsable key fails the call) are decided by the bounded container harnesses (exhaustive native execution, <= 3 members). Verus proves for Vec, [T;N], (A,B), (A,B,C), Option, Box: the result represents the payload element-wise in order with nothing dropped/duplicated (loop invariant seq_repr), arrays/tuples accept exactly their arity and otherwise report BadSequenceLen with the whole sequence and N, Option is None exactly for Null. Set/map *contents* and CS lists have no vstd model and are decided by bounded Kani harnesses when present.",
        "level_note": "Relative to the trait contracts and the std axiom 'Vec<T> -> [T;N] try_into succeeds iff len == N, keeping order'.",
        "assumptions": _CONTAINER_ASSUME,
    },
})

_SCALAR_HARNESSES = ["h_scalars::proofs::scalar_u", "h_scalars::proofs::scalar_i", "h_scalars::proofs::scalar_nz", "h_scalars::proofs::scalar_f",
                     "h_scalars::proofs::scalar_bool", "h_scalars::proofs::scalar_unit", "h_scalars::proofs::scalar_string_kinds", "h_scalars::proofs::scalar_char_"]
PROPS["C05"] = {
    "title": "Scalars accept exactly the representable values, exactly, and say why not",
    "level": "proof",
    "technique": "Kani/CBMC on the real compiled macro instances: one loop-free harness per scalar type over every payload kind with full-domain symbolic u64 / i64 / f64 (complete, not bounded); contract = assume-nothing / assert-postcondition around the real function",
    "design_ref": "DESIGN.md §4 C05",
    "units": [{"kind": "kani", "group": "scalars", "filters": _SCALAR_HARNESSES, "need_stub": True, "timeout": 1200, "enumerable": False,
               "assumptions": ["alloc::fmt::format is stubbed (message text of the domain error is not inspected; only its kind, location and multiplicity)",
                               "usize/isize are 64-bit (x86_64)",
                               "String contents are proved in the Verus unit (represents: the result is the payload string); char contents beyond the empty string (str::chars / count under CBMC ran > 20 min per string) are NOT decided here; the kind part of both is full-domain"]}],
    "text": "For each of the 24 integer / NonZero types, f32, f64, bool, (), and the kind part of String/char, a Kani harness gives the real `deserialize_from_value` a payload of any kind whose number is a fully symbolic u64 / i64 / f64 and asserts the postcondition taken from the statement: Ok(v) iff kind admissible and value in [MIN, MAX] (non-zero for NonZero) and then v == value in 128-bit arithmetic (floats: bit-equal to the IEEE conversion, and integers <= 2^53 / 2^24 convert back exactly); otherwise exactly one report, at the given location, IncorrectValueKind with exactly the admissible kinds as a set (and the actual kind found) when the kind is wrong, Unexpected when only the domain is wrong. Loop-free over the full domain => complete.",
    "level_note": "Complete for numbers/bool/unit/kinds (no unwinding bound is hit: unwinding assertions are on). Message wording and multi-character string contents are not decided here.",
    "assumptions": [],
}

_DERIVE_BOUNDS = "BOUNDED: catalogue of 10 derived types (kani/src/h_derive.rs); payload objects of <= 2 members (plus the tag), keys symbolic over a per-type dictionary of 4-11 equal-length words (effective keys, identifiers, case variations, names of skipped fields), values in {Integer 0..3, Null, Boolean}, every Continue/Break answer sequence; field types are the contract stub `Leaf`"
_DERIVE_ASSUME = [
    "program quantifier ('every derive input') is SAMPLED: a hand-written catalogue of 10 types covering rename / rename_all (struct, enum, variant), default / default = expr / skip (in the middle of the declaration), deny_unknown_fields (default and function), missing_field_error, from / try_from / map / validate (field and container), tag, unit enums, nesting; the expansion is the real proc-macro's output compiled by rustc",
    "reference semantics (kani/src/support/reference.rs) written from the property statements; effective keys / deny lists / variant names in the descriptors are computed by hand from the statement's rules, not by the derive",
    "field types are `Leaf` (the Deserr trait contract made executable: accepts exactly Integer, otherwise exactly one report at its location); payload width/depth are bounded as stated, so this is a bounded stand-in, not a proof",
    "alloc::fmt::format is stubbed in the Kani harnesses",
]
def _kd(group, hs, thorough=None, timeout=2400):
    return {"kind": "kani", "group": group, "filters": ["h_derive::proofs::" + h + "::check" for h in hs], "thorough_filters": ["h_derive::proofs::" + h + "::check" for h in (thorough or [])],
            "need_stub": True, "timeout": timeout, "bounds": _DERIVE_BOUNDS, "extra": ["--exact"], "jobs": 8}
def _ed(group, hs, thorough=None):
    return {"kind": "enum", "group": group + "-enum", "harnesses": hs, "thorough_harnesses": thorough or [],
            "bounds": "exhaustive native execution of the same harness bodies over their whole decision tree (same bounds as the Kani harnesses; thorough tier adds 3-member objects)"}
_DERIVE_LEVEL_NOTE = "Harnesses derive_tagged_last, order_tagged and derive_nest exceeded CBMC's memory budget (> 15 GB each) and are covered only by the exhaustive native execution of the same bodies. Bounded stand-in (Kani/CBMC, all inputs within the stated bounds, unwinding assertions on) -- not counted as proved; the derive's generated code is outside Verus' reach (string-literal matches, closures, inferred FieldState types)."
PROPS.update({
    "C07": {"title": "Derived fields are read from exactly their effective key", "level": "model_checking",
        "technique": "Kani/CBMC bounded model checking of the real derive expansion against a reference interpreter (symbolic keys over a dictionary with near-misses); contract = postcondition computed from the declarative description",
        "design_ref": "DESIGN.md §4 C07-C11",
        "units": [_kd("derive-keys", ["derive_plain_2", "derive_camel_2", "derive_lower_2", "derive_tagged_first"]), _ed("derive-keys", ["derive_plain_2", "derive_camel_2", "derive_lower_2", "derive_tagged_first", "derive_tagged_last", "derive_deny4_2"])],
        "text": "For catalogue types using rename, rename_all = camelCase / lowercase on structs, on an enum (variants only) and on a variant (its fields only), skip and default, every payload of <= 2 members whose keys range symbolically over the effective keys, the raw identifiers, case variations and skipped-field names is run through the real expansion; the Ok value must have each field filled from exactly the entry under its effective key (distinct Integer payloads tell entries apart) and the missing / unknown-key reports must name exactly the effective keys.",
        "level_note": _DERIVE_LEVEL_NOTE, "assumptions": _DERIVE_ASSUME},
    "C08": {"title": "Missing, default and skip: absent means absent, once, at the right place", "level": "model_checking",
        "technique": "Kani/CBMC bounded model checking of the real derive expansion against a reference interpreter (FieldState discipline: missing / present-but-invalid / default / skipped)",
        "design_ref": "DESIGN.md §4 C07-C11",
        "units": [_kd("derive-missing", ["derive_camel_2", "derive_lower_2", "derive_fns5_2", "derive_conv8_2"]), _ed("derive-missing", ["derive_camel_2", "derive_lower_2", "derive_fns5_2", "derive_conv8_2", "derive_deny4_2", "derive_plain_2"], ["derive_conv8_3"])],
        "text": "For types with default, default = expr, skip (declared between other fields), missing_field_error = fn, map on a defaulted field and Option fields: a missing report is made exactly for non-skipped, non-defaulted fields whose key is absent (null and invalid values count as present), carries the effective key and the container's location (the user function receives exactly those two), defaults are taken exactly when absent (map applied on top), skipped fields never read the payload.",
        "level_note": _DERIVE_LEVEL_NOTE, "assumptions": _DERIVE_ASSUME},
    "C09": {"title": "Unknown keys: denied exactly and completely, otherwise ignored completely", "level": "model_checking",
        "technique": "Kani/CBMC bounded model checking of the real derive expansion against a reference interpreter (accepted list = effective keys of non-skipped fields in declaration order, compared by positional hash)",
        "design_ref": "DESIGN.md §4 C07-C11",
        "units": [_kd("derive-unknown", ["derive_deny4_2", "derive_camel_2", "derive_fns5_2", "derive_plain_2"]), _ed("derive-unknown", ["derive_deny4_2", "derive_camel_2", "derive_fns5_2", "derive_plain_2", "derive_lower_2"])],
        "text": "With deny_unknown_fields (default error and user function) every key that is not an effective key of a non-skipped field -- including the names of skipped fields, raw identifiers of renamed fields and case variations -- is reported exactly once at the container's location with the exact accepted list in declaration order; without the attribute the reference ignores such keys, so value and reports must be those of the payload without them.",
        "level_note": _DERIVE_LEVEL_NOTE, "assumptions": _DERIVE_ASSUME},
    "C10": {"title": "Enum dispatch: the tag or string selects exactly the named variant", "level": "model_checking",
        "technique": "Kani/CBMC bounded model checking of the real derive expansion of a tagged enum and a unit enum against a reference interpreter (tag first / last / absent / non-string / near-miss names)",
        "design_ref": "DESIGN.md §4 C07-C11",
        "units": [_kd("derive-enum", ["derive_tagged_first", "derive_tagged_absent", "derive_tagged_not_a_map", "derive_units"]), _ed("derive-enum", ["derive_tagged_first", "derive_tagged_last", "derive_tagged_absent", "derive_tagged_not_a_map", "derive_units"])],
        "text": "Tagged enum with renamed variants, container rename_all, a variant-level rename_all and variants sharing a field name with different types: the variant is the one whose effective name equals the tag string exactly (case variations and field keys as tag values select nothing: Unexpected at the enum), absent tag => MissingField(tag) at the enum, non-string tag => kind error at the tag's own location, fields then follow the selected variant's rules only. Unit enum: exact match, otherwise UnknownValue with all effective names in declaration order.",
        "level_note": _DERIVE_LEVEL_NOTE, "assumptions": _DERIVE_ASSUME},
    "C11": {"title": "from / try_from / map / validate see only good values, once, in order", "level": "model_checking",
        "technique": "Kani/CBMC bounded model checking of the real derive expansion with call-counting user functions against a reference interpreter (counter equalities, foreign-error hand-over events)",
        "design_ref": "DESIGN.md §4 C07-C11",
        "units": [_kd("derive-fns", ["derive_conv8_2", "derive_cont9", "derive_fns5_2"], ["derive_conv8_3"]), _ed("derive-fns", ["derive_conv8_2", "derive_cont9", "derive_fns5_2"], ["derive_conv8_3"])],
        "text": "Field-level try_from / from, map on a defaulted field, container validate and container-level try_from, all with call counters: each conversion runs exactly once iff its intermediate value deserialized, map once per field iff the container succeeded, validate once iff all fields succeeded (receiving the finished value and the container's location); a try_from / validate failure appears as exactly one foreign-error event at the field's (container's) location, handed over once, and fails the call.",
        "level_note": _DERIVE_LEVEL_NOTE, "assumptions": _DERIVE_ASSUME},
    "C15": {"title": "Object member order never changes the outcome", "level": "model_checking",
        "technique": "Kani/CBMC relational harness on the real derive expansion over an order-preserving second value source: same two members in both orders, keep-going error type; equal values and equal multisets of reports",
        "design_ref": "DESIGN.md §4 C15",
        "units": [_kd("derive-order", ["order_camel", "order_conv8"]), _ed("derive-order", ["order_camel", "order_tagged", "order_conv8"])],
        "text": "For a struct with renames/defaults/deny_unknown_fields, a tagged enum (tag before and after the other member) and a struct with conversion functions: the payload's two members (distinct symbolic keys, symbolic values) are presented in both orders through the arena value source; the Ok values and the multisets of events received by a keep-going error type must be equal. std map targets: the Verus trace is defined over the entry sequence; order-independence of the multiset there is not claimed.",
        "level_note": _DERIVE_LEVEL_NOTE + " Objects of exactly 2 members.", "assumptions": _DERIVE_ASSUME},
})

_ERRORS_UNIT = {"kind": "verus", "unit": "messages", "ce_harnesses": {"::": ["msg_paths"]}}
PROPS["C03"]["units"] = [_IMPLS_UNIT, _JSON_TARGET_UNIT, _ERRORS_UNIT]
for _p in ("C01", "C02", "C04"):
    PROPS[_p]["units"] = [_IMPLS_UNIT, _JSON_TARGET_UNIT]
# the derived-type part of C01-C04 is bounded: the derive catalogue harnesses carry obligations labelled C01..C04 as well
_DERIVE_ALL = ["derive_plain_2", "derive_camel_2", "derive_lower_2", "derive_deny4_2", "derive_fns5_2", "derive_conv8_2", "derive_cont9", "derive_tagged_first", "derive_tagged_last", "derive_tagged_absent", "derive_tagged_not_a_map", "derive_units", "derive_nest"]
for _p in ("C01", "C02", "C03", "C04"):
    PROPS[_p]["units"] = PROPS[_p]["units"] + [_CONT_ENUM, _kd("derive-core", ["derive_conv8_2", "derive_fns5_2", "derive_camel_2"], ["derive_plain_2", "derive_lower_2", "derive_deny4_2", "derive_cont9", "derive_tagged_first", "derive_units"]), _ed("derive-core", _DERIVE_ALL, ["derive_conv8_3"])]
    PROPS[_p]["level_note"] += " Derived types: bounded stand-in only (Kani on three catalogue types in the quick tier, all in thorough; exhaustive native execution of all 13 harness bodies)."
for _p in ("C01", "C02", "C03", "C04"):
    PROPS[_p]["assumptions"] = _CONTAINER_ASSUME + _JSON_TARGET_ASSUME
    PROPS[_p]["text"] += " serde_json::Value as a *target* (src/serde_json.rs) is proved against the same postconditions in unit json_target (arrays and objects: same accumulator invariants; the only fault is a non-finite float)."
PROPS["C03"]["text"] += " The built-in error types are proved (Verus, unit 'messages') to answer Break to every report and to return exactly the handed error from merge, so for them the result is the first report of the keep-going run."
PROPS["C13"] = {
    "title": "serde_json bridge is lossless and self-consistent", "level": "proof",
    "technique": "Kani/CBMC loop-free harnesses over all u64 / i64 / f64 / bool on the real IntoValue, From<Value> and Deserr impls for serde_json::Value (complete for scalars)",
    "design_ref": "DESIGN.md §4 C13",
    "units": [{"kind": "kani", "group": "json-scalars", "filters": ["h_json::proofs"], "need_stub": True, "timeout": 1200, "enumerable": False,
               "assumptions": ["serde_json is compiled as in Cargo.lock (no arbitrary_precision, no preserve_order)", "alloc::fmt::format stubbed (message of the non-finite float report not inspected)",
                               "strings, arrays and objects (heap-allocated, recursive drop glue) are NOT covered by a discharged harness at this commit: the container part of C13 is undecided here"]}],
    "text": "For every u64, every i64, every f64 bit pattern, null and both booleans: kind() of the serde_json value equals the kind of its consumed view; numbers are classified as serde_json holds them (u64 => Integer, negative i64 => NegativeInteger, finite f64 => Float bit-exact, non-finite not representable); From<Value> and the Deserr impl give back the same number / bool / null with no report; a non-finite float from another source yields exactly one Unexpected report at the given location (Deserr) or null (From). Loop-free, full domain => complete for the scalar part.",
    "level_note": "Scalar part complete; nested arrays / objects are not decided at this commit (no bounded harness finished within budget).",
    "assumptions": [],
}
PROPS["C14"] = {
    "title": "Built-in error messages name the right place, value and alternatives", "level": "other",
    "technique": "Verus on the extracted JsonError / QueryParamError `error` and `merge` functions (always Break; merge returns the handed error) -- the structural clause only; message text is outside what contracts can decide here",
    "design_ref": "DESIGN.md §4 C14",
    "units": [_ERRORS_UNIT],
    "text": "Decided: both built-in error types answer Break to every report and `merge` returns exactly the error it was handed (Verus, all inputs); together with C03's postconditions this yields 'the message is the one built for the first report of the keep-going run'. NOT decided: the wording of the message (path rendering, quoted value, alternatives, suggestion) -- string formatting is modelled by neither installed verifier (format! is replaced by an opaque string in Verus and costs minutes per call in CBMC).",
    "level_note": "Partial: structural clause proved; message text not decided. R4 of the extractor replaces the message-building expression by an opaque string after checking it contains no return / ? / break / continue.",
    "explanation": "Only the fail-fast structure of C14 is within reach of contracts; a change to message text is not detected by this check.",
    "assumptions": ["parameter types ErrorKind / Value / IntoValue / ValuePointerRef are opaque stand-ins in this unit (the verified functions never inspect them once R4 has been applied)"],
}
PROPS["C17"] = {
    "title": "Expected-kinds phrase depends only on the set of kinds and covers it exactly", "level": "other",
    "technique": "exhaustive native execution of the real function over the whole finite domain named by the property (all 37 449 sequences of length <= 5 and all 256 subsets under every permutation), against a specification function of the set written from the statement",
    "design_ref": "DESIGN.md §4 C17",
    "units": [{"kind": "enum", "group": "kinds-phrase", "harnesses": ["kinds_sequences", "kinds_permutations"], "bounds": "finite domain enumerated completely: 8^0+...+8^5 sequences; every subset of 6, 7, 8 kinds in every order"}],
    "text": "value_kinds_description_json is a nested-fn / slice-pattern / String-building function that neither verifier takes (Verus: no slice patterns; CBMC: minutes per format! call). Its domain is finite, so it is decided by executing the real function on every sequence of kinds of length <= 5 (with repetitions) and on every permutation of every subset of 6-8 kinds, comparing with spec_phrase(set).",
    "level_note": "Exhaustive over the stated finite domain; not a deductive proof (labelled so). std sort_by_key / dedup are executed, not assumed.",
    "explanation": "Exhaustive enumeration of a finite domain by execution of the real code; the contract technique does not reach this function.",
    "assumptions": [],
}
PROPS["C18"] = {
    "title": "did-you-mean suggests only a closest accepted name within the typo budget", "level": "other",
    "technique": "exhaustive native execution of the real did_you_mean over all (received, candidate) pairs of a 3-letter alphabet (lengths <= 6 x <= 5) and candidate lists with ties / exact matches / thresholds, against the statement's specification with an independent Damerau-Levenshtein implementation",
    "design_ref": "DESIGN.md §4 C18",
    "units": [{"kind": "enum", "group": "did-you-mean", "harnesses": ["dym_pairs", "dym_lists"], "bounds": "397 852 pairs over {a,b,c}; 12 received strings around every budget threshold x lists of <= 3 candidates from a pool of 8 (ties, exact matches, empty list, multi-byte)"}],
    "text": "Every pair (received, single candidate) over a three-letter alphabet with lengths 0..6 x 0..5, and every list of up to 3 candidates from a pool with ties, exact matches, the empty string and multi-byte words for received strings at every length bucket boundary, is run through the real function and compared with: empty if len <= 3 or no candidate within budget(len), else the earliest candidate at minimal distance.",
    "level_note": "Bounded exhaustive execution, not a proof. A Kani harness with strsim stubbed by a symbolic distance table exists (h_text::dym_symbolic_distances) but is not part of the registered check unless it completes within budget.",
    "explanation": "Bounded exhaustive enumeration by execution of the real code; string formatting keeps the function out of practical reach of the verifiers.",
    "assumptions": ["strsim::damerau_levenshtein is compared with an independent implementation on the enumerated domain only"],
}

PROPS["C16"] = {
    "title": "The derive rejects what it cannot honour instead of ignoring it", "level": "other",
    "technique": "Verus on the extracted attribute merge / validate functions of derive/src/attribute_parser.rs (representation invariant 'attribute present <=> span recorded'; Err <=> duplicate or conflict) + bounded compile run of poisoned derive inputs through the real proc-macro",
    "design_ref": "DESIGN.md §4 C16",
    "units": [{"kind": "verus", "unit": "attrs"}, {"kind": "ui", "group": "derive-rejects"}],
    "text": "Deductive part (Verus, all inputs): FieldAttributesInfo::merge, ContainerAttributesInfo::merge, VariantAttributesInfo::merge return Err exactly when a single-valued attribute is present on both sides or from/try_from conflict, and preserve the invariant that the span used for duplicate detection is recorded exactly when the attribute is present; validate_container_attributes returns Err exactly for try_from with rename_all / tag / deny_unknown_fields and for tag on a struct. Bounded part: 41 hand-written derive inputs (5 valid controls, 36 poisoned with one rejection cause each: unsupported shapes, unknown attributes, invalid rename_all, malformed syntax, duplicates within one attribute and across several at container / variant / field level, from + try_from, tag on struct, try_from conflicts) are compiled with the real proc-macro; each poisoned input must be rejected by a derive diagnostic in its own line range, never a panic, never silently accepted.",
    "level_note": "The token-level parsing (syn) and the shape checks are not within reach of either verifier: that part is a bounded compile run over a sampled grammar, labelled as such. syn / proc_macro2 types are opaque stand-ins in the Verus unit.",
    "explanation": "Partial deductive proof (merge / validate logic) + bounded compile-fail run; the 'every derive input' quantifier is sampled.",
    "assumptions": ["syn::Error construction does not panic; Vec::extend is total (external_body stand-ins)"],
}

PROPS["C12"] = {
    "title": "deserialize is total: it returns Ok or Err, it never panics", "level": "proof",
    "technique": "Verus proves every extracted function free of panics (unwrap / panic! / index / arithmetic) under the value-source contract; Kani reports any reachable panic or overflow in the real compiled code of the scalar, serde_json-number and derive harnesses as a failed check",
    "design_ref": "DESIGN.md §A.6, §4 C12",
    "units": [_IMPLS_UNIT, _CONT_ENUM, {"kind": "verus", "unit": "value"}, {"kind": "verus", "unit": "json_target"},
              {"kind": "kani", "group": "json-scalars", "filters": ["h_json::proofs"], "need_stub": True, "timeout": 1200, "enumerable": False},
              _kd("derive-total", ["derive_camel_2", "derive_conv8_2", "derive_tagged_first"], ["derive_plain_2", "derive_lower_2", "derive_deny4_2", "derive_fns5_2", "derive_cont9", "derive_tagged_absent", "derive_tagged_not_a_map", "derive_units"]),
              _ed("derive-total", ["derive_plain_2", "derive_camel_2", "derive_lower_2", "derive_deny4_2", "derive_fns5_2", "derive_conv8_2", "derive_cont9", "derive_tagged_first", "derive_tagged_last", "derive_tagged_absent", "derive_tagged_not_a_map", "derive_units", "derive_nest"], ["derive_conv8_3"]),
              {"kind": "kani", "group": "scalars", "filters": _SCALAR_HARNESSES, "need_stub": True, "timeout": 1200, "thorough_only": True, "enumerable": False}],
    "text": "Unbounded part (Verus): every std container impl, take_cf_content and the value-pointer functions verify with zero errors, which includes absence of panics on every path: the `panic!` after `try_into` in [T; N] is unreachable (ret.len() == N), the `iter.next().unwrap()` / `a.unwrap()` of the tuple impls are safe (arity checked, accumulator None), `index += 1` cannot overflow -- for every payload, every well-formed value source and every answer sequence. Complete part (Kani): every serde_json Number built from any u64 / i64 / finite f64 is classified (no `panic!()` in into_value / kind); scalar impls (thorough tier). Bounded part: the derive catalogue harnesses (FieldState::unwrap is reached only with all fields Some) under Kani and by exhaustive native execution with catch_unwind, including duplicate keys from the arena value source.",
    "level_note": "Stack depth (nesting 128) is not modelled by either verifier. Derived types are bounded and sampled (see C07). A Verus message counts for C12 when its primary span is extracted repository code (not inserted ghost text) and its class is a panic class (failed precondition of a std/vstd function, arithmetic overflow, index).",
    "assumptions": _CONTAINER_ASSUME + ["derived types: bounded payloads and sampled programs, see C07-C11"],
}

_CS_UNIT = {"kind": "verus", "unit": "cs"}
PROPS["C06"]["units"] = PROPS["C06"]["units"] + [_CS_UNIT]
PROPS["C06"]["text"] += " Comma-separated CS<R> lists (src/serde_cs.rs): proved in Verus unit `cs` against a stand-in for serde_cs: Ok exactly when the payload is a String that CS::from_str accepts, otherwise exactly one report at the given location (Unexpected for an unparsable list, kind error listing String otherwise); the *contents* of the parsed list are serde_cs's."
PROPS["C01"]["units"] = PROPS["C01"]["units"] + [_CS_UNIT]
_DERIVE_VERUS = {"kind": "verus", "unit": "derive", "ce_harnesses": {"for Tagged<": ["derive_tagged_first", "derive_tagged_last", "derive_tagged_absent"], "for Units ": ["derive_units"], "for One<": ["derive_plain_2"], "for Plain<": ["derive_plain_2"], "for Camel<": ["derive_camel_2"], "for Lower<": ["derive_lower_2"], "for Deny4<": ["derive_deny4_2"]}}
_DERIVE_VERUS_TEXT = " UNBOUNDED part (Verus unit `derive`): the real expansion of #[derive(Deserr)] (obtained on every run from the repository's own proc-macro with `rustc -Zunpretty=expanded`) for five catalogue structs -- no attributes; two required fields; rename_all = camelCase + rename + default + deny_unknown_fields; rename_all = lowercase + skip declared between other fields + default; deny_unknown_fields + skip + rename + default -- with generic field types is verified against contracts generated from the declarative description (tools/derive_unit.py computes effective keys, accepted list and missing/default/skip rules itself): for every payload, every member order, duplicate keys, every answer sequence: Ok => no fault and every non-skipped field filled from the last entry under exactly its effective key; the trace is the per-entry contributions in enumeration order (unknown keys reported exactly under deny_unknown_fields with the exact accepted list) followed by one MissingField per absent required field in declaration order; defaults never missing; FieldState::unwrap never reached without a value."
for _p in ("C07", "C08", "C09"):
    PROPS[_p]["units"] = [_DERIVE_VERUS] + PROPS[_p]["units"]
    PROPS[_p]["text"] += _DERIVE_VERUS_TEXT
    PROPS[_p]["level"] = "proof"
    PROPS[_p]["technique"] = "Verus on the real derive expansion of a struct catalogue (unbounded payloads; contracts generated from the declarative description) + " + PROPS[_p]["technique"]
    PROPS[_p]["level_note"] = "Proof for the five struct programs of catalogue/structs.json (all payloads, all answers); the program quantifier ('every derive input') is sampled; enum / user-function features and the remaining catalogue types are bounded (Kani + exhaustive native execution). " + PROPS[_p]["level_note"]
for _p in ("C01", "C02", "C03", "C04", "C12"):
    PROPS[_p]["units"] = PROPS[_p]["units"] + [_DERIVE_VERUS]
    PROPS[_p]["text"] += " Derived structs: the real expansion for the structs of catalogue/structs.json (three of them with user-function attributes) is proved in Verus unit `derive` against the same postconditions (unbounded payloads)."
PROPS["C10"]["units"] = [_DERIVE_VERUS] + PROPS["C10"]["units"]
PROPS["C10"]["text"] += " UNBOUNDED part (Verus unit `derive`): the real expansion for two unit-only enums (rename_all = lowercase with a renamed variant; rename_all = camelCase on PascalCase identifiers) is proved for every payload: the variant chosen is exactly the one whose effective name equals the string, any other string yields one UnknownValue report with all effective names in declaration order at the enum's location, any non-string one kind error listing String. Internally tagged enum (tag `type`, container rename_all = camelCase, a renamed variant, a variant-level rename_all = lowercase, a defaulted field, two variants sharing a field name with different types): the real expansion is proved for every payload and every position of the tag: an absent tag is MissingField(tag) at the enum, a non-string tag a kind error at the tag's own location, a string naming no variant an error at the enum, otherwise exactly the variant whose effective name equals the string is built from the remaining entries by that variant's field rules alone (relative to the value-source contract of Map::remove: it takes out the first entry under the key and only it)."
PROPS["C10"]["level"] = "proof"
PROPS["C10"]["technique"] = "Verus on the real derive expansion of two unit enums and one internally tagged enum (unbounded payloads; contracts generated from the declarative description) + " + PROPS["C10"]["technique"]
PROPS["C10"]["level_note"] = "Proof for the three enum programs of catalogue/structs.json; the program quantifier is sampled; the Kani / native harnesses on a second tagged enum remain as bounded cross-checks. " + PROPS["C10"]["level_note"]
PROPS["C15"]["units"] = [_DERIVE_VERUS] + PROPS["C15"]["units"]
PROPS["C15"]["text"] += " Verus unit `derive` contributes the obligation that every entry of the object is examined (the key loop runs to the end whatever the order) for the five catalogue structs."
_FIELDSTATE_UNIT = {"kind": "verus", "unit": "fieldstate"}
_JSON_SOURCE_UNIT = {"kind": "verus", "unit": "json_source"}
PROPS["C13"]["units"] = [_JSON_SOURCE_UNIT] + PROPS["C13"]["units"]
PROPS["C13"]["technique"] = "Verus on the extracted `IntoValue for serde_json::Value` (kind() and into_value() both equal the kind serde_json holds; numbers handed over unchanged; unbounded, all documents) + " + PROPS["C13"]["technique"]
PROPS["C13"]["text"] = "Unbounded (Verus, unit json_source): for every serde_json::Value -- strings, arrays and objects included -- `kind()` equals the kind of `into_value()`, both equal the classification 'PosInt => Integer, NegInt => NegativeInteger, Float => Float', the number / bool / string / array / object is handed over unchanged, and the `panic!()` arms are unreachable (relative to the stated model of serde_json::Number's accessors). " + PROPS["C13"]["text"]
PROPS["C12"]["units"] = PROPS["C12"]["units"][:3] + [_JSON_SOURCE_UNIT, _FIELDSTATE_UNIT] + PROPS["C12"]["units"][3:]
for _p in ("C04", "C07", "C08"):
    PROPS[_p]["units"] = [_FIELDSTATE_UNIT] + PROPS[_p]["units"]
    PROPS[_p]["text"] += " The derive's helper FieldState (src/lib.rs) is under contract in Verus unit `fieldstate`: is_missing is true exactly for Missing (so present-but-invalid and defaulted fields are never reported missing), unwrap requires and returns the value."


# ---- round 3: coverage added after the third batch of seeded changes --------------------------------------------------------
def _unit_of(pid, kind, group):
    for u in PROPS[pid]["units"]:
        if u.get("kind") == kind and u.get("group") == group:
            return u
    raise KeyError((pid, kind, group))
def _more(pid, kind, group, key, names):
    u = dict(_unit_of(pid, kind, group)); u[key] = list(u.get(key, [])) + [n for n in names if n not in u.get(key, [])]
    PROPS[pid]["units"] = [u if (x.get("kind") == kind and x.get("group") == group) else x for x in PROPS[pid]["units"]]
_NEW_STRUCTS = ["derive_deffirst_2", "derive_ferr10_2"]
_NEW_ENUMS = ["derive_tagdeny_first", "derive_tagdeny_last"]
for _p in ("C01", "C02", "C03", "C04"):
    _more(_p, "enum", "derive-core-enum", "harnesses", _NEW_STRUCTS + _NEW_ENUMS)
    _more(_p, "enum", "derive-core-enum", "thorough_harnesses", ["derive_deffirst_3"])
_more("C07", "enum", "derive-keys-enum", "harnesses", ["derive_deffirst_2"] + _NEW_ENUMS)
_more("C08", "enum", "derive-missing-enum", "harnesses", ["derive_deffirst_2", "derive_deffirst_3"])
_more("C09", "enum", "derive-unknown-enum", "harnesses", _NEW_ENUMS)
_more("C10", "enum", "derive-enum-enum", "harnesses", _NEW_ENUMS)
_more("C11", "enum", "derive-fns-enum", "harnesses", ["derive_ferr10_2"])
_more("C12", "enum", "derive-total-enum", "harnesses", _NEW_STRUCTS + _NEW_ENUMS + ["derive_deffirst_3", "derive_refs13_2", "derive_cfrom14"])
_more("C11", "enum", "derive-fns-enum", "harnesses", ["derive_refs13_2", "derive_refs13_3", "derive_cfrom14"])
_more("C11", "kani", "derive-fns", "thorough_filters", ["h_derive::proofs::derive_refs13_2::check", "h_derive::proofs::derive_cfrom14::check"])
for _p in ("C01", "C02", "C03", "C04"):
    _more(_p, "enum", "derive-core-enum", "harnesses", ["derive_refs13_2", "derive_cfrom14"])
_more("C15", "enum", "derive-order-enum", "harnesses", ["order_camel_3", "order_lower_3", "order_deffirst_3", "order_tagged_3", "order_tagdeny_3"])
# Kani (thorough tier) on the new catalogue types; derive_ferr10_2 also in C11's quick tier
for _p, _g in (("C08", "derive-missing"), ("C12", "derive-total")):
    _more(_p, "kani", _g, "thorough_filters", ["h_derive::proofs::derive_deffirst_2::check"])
_more("C09", "kani", "derive-unknown", "thorough_filters", ["h_derive::proofs::derive_tagdeny_first::check"])   # derive_tagdeny_last: > 9 GB under CBMC, native execution only
_more("C11", "kani", "derive-fns", "filters", ["h_derive::proofs::derive_ferr10_2::check"])
_DERIVE_VERUS["ce_harnesses"].update({"for DefFirst<": ["derive_deffirst_2", "derive_deffirst_3"], "for TagDeny<": ["derive_tagdeny_first", "derive_tagdeny_last"]})
_R3_TEXT = " Added after the third batch of seeded changes: a struct whose `default` field is declared BEFORE its required fields (DefFirst; the derive zips per-field token lists by index), a field-level error type (`error = Rec2` on a field, with and without try_from: Ferr10) and an internally tagged enum with deny_unknown_fields (TagDeny: the accepted list of a variant is its own keys, never the tag) -- DefFirst and TagDeny also in the Verus catalogue (unbounded payloads); by-reference conversion functions (`try_from(&T)`, `from(&T)`), `map` on a required field (Refs13) and container-level `from` (Cfrom14)."
for _p in ("C07", "C08", "C09", "C10", "C11", "C12"):
    PROPS[_p]["text"] += _R3_TEXT
PROPS["C11"]["text"] += " The hand-over of a conversion error to the container's error type is compared event by event (obligation user_function_errors_handed_over_at_the_field_or_container_location): same position in the trace, same location."
PROPS["C15"]["text"] += " Three-member objects in all six orders (native execution only, bounded): Camel, Lower, DefFirst, Tagged (tag at every position), TagDeny."
PROPS["C15"]["level_note"] = PROPS["C15"]["level_note"].replace(" Objects of exactly 2 members.", " Objects of exactly 2 members under Kani; 3 members in all 6 orders by exhaustive native execution.")

# user-function attributes under contract in the Verus derive unit (catalogue programs Conv, Hooks, Valid)
PROPS["C11"]["units"] = [_DERIVE_VERUS] + PROPS["C11"]["units"]
_DERIVE_VERUS["ce_harnesses"].update({"for Conv ": ["derive_conv8_2", "derive_ferr10_2", "derive_refs13_2"], "for Hooks<": ["derive_fns5_2"], "for Valid ": ["derive_conv8_2"]})
_FNS_TEXT = " User-function attributes in the Verus catalogue (programs Conv: try_from + from; Hooks: default + map, missing_field_error = f, deny_unknown_fields = f; Valid: validate over converted fields), unbounded in the payload and the answers: every call site of a conversion function is proved to pass a successfully deserialized value; the stored value is the conversion of the value under the field's effective key; a conversion failure yields exactly the two hand-overs at the field's location (field's error type, then the container's accumulator) and fails the call; the missing-field function is called with the effective key and the unknown-key function with the key and the exact accepted list, each handed over at the container's location; the validation function receives exactly the value built from the fields, only when all fields are fine, and its failure is handed over at the container's location. Assumed: the user functions are pure functions of their argument; a user error value carries no recorded calls; the intermediate type's `represents` is functional. Not expressible (pure functions): the number of calls and `map` not running when the container fails -- these stay with the call-counting bounded harnesses."
for _p in ("C08", "C09", "C11"):
    PROPS[_p]["text"] += _FNS_TEXT
PROPS["C11"]["technique"] = "Verus on the real derive expansion of three catalogue programs with user-function attributes (call-site preconditions, converted values, hand-over events; unbounded payloads) + " + PROPS["C11"]["technique"]
PROPS["C11"]["level_note"] = "Level stays model_checking: 'exactly once' (call counts) and 'map is not run when the container fails' are only decided by the bounded call-counting harnesses; the clauses listed in the text are proved (Verus) for the three catalogue programs. " + PROPS["C11"]["level_note"]
_more("C15", "enum", "derive-order-enum", "harnesses", ["order_maps_3"])
PROPS["C15"]["text"] += " std map targets (BTreeMap / HashMap<u8, Leaf>): three entries with distinct keys (parsable and unparsable) in all six orders, natively: same map, same multiset of reports."

# C06: set / map contents under contract (relative to std's own requirement on the key type)
for _p in ("C06",):
    PROPS[_p]["text"] += " Set and map CONTENTS (unbounded, Verus unit impls): for HashSet / BTreeSet the result is exactly the set of the deserialized elements (every member represents some payload element and every payload element is represented by a member); for HashMap / BTreeMap the keys are exactly the parsed keys of the entries and the value under a key represents the payload value of an entry with that parsed key -- each relative to vstd's model condition on the key type (obeys_key_model / key_obeys_cmp_spec: Hash / Eq / Ord behave as std requires) and to FromStr being a function of the string. Tuples: the elements are read only from a sequence of exactly the arity (labelled assertion before the first element is read). Also under contract: PhantomData<T> (reads nothing, never reports) and `Sequence for Vec<T>` (a Vec used as a value source enumerates its elements in order); `Sequence for [T; N]` is not (core::array::IntoIter has no vstd specification)."
    PROPS[_p]["level_note"] = "Vec / array / tuple / Option / Box / set / map unbounded (sets and maps relative to the stated key-model condition); the bounded container harnesses remain as cross-checks and counterexample finders."
PROPS["C16"]["text"] = PROPS["C16"]["text"].replace("41 hand-written derive inputs (5 valid controls, 36 poisoned", "79 hand-written derive inputs (9 valid controls, 70 poisoned")

# bounded companions of the Verus units cs / json_target, tagged enum with function attributes
for _p in ("C01", "C02", "C03", "C04", "C06", "C12"):
    _more(_p, "enum", "containers-enum", "harnesses", ["cont_cs", "cont_jvalue"]) if any(u.get("group") == "containers-enum" for u in PROPS[_p]["units"]) else None
_more("C11", "enum", "derive-fns-enum", "harnesses", ["derive_tagfn_3"])
_more("C12", "enum", "derive-total-enum", "harnesses", ["derive_tagfn_3"])
for _p in ("C01", "C02", "C03", "C04"):
    _more(_p, "enum", "derive-core-enum", "harnesses", ["derive_tagfn_3"])
PROPS["C13"]["units"] = PROPS["C13"]["units"] + [{"kind": "enum", "group": "json-target-enum", "harnesses": ["cont_jvalue"], "bounds": "13 122 arena payloads: a sequence or map of two members, each a scalar (incl. NaN / infinity) or a nested one-element sequence / map"}]

# after the fourth batch of seeded changes
_more("C12", "enum", "derive-total-enum", "harnesses", ["derive_cont9b", "derive_camel2_2"])
PROPS["C12"]["units"] = PROPS["C12"]["units"] + [{"kind": "enum", "group": "scalar-text", "harnesses": ["scalar_messages", "scalar_text_contents"],
    "bounds": "char / String targets: all strings of 0..=3 characters over a pool of 1-4 byte characters, and strings of 17..=26 ASCII bytes with one pool character in front, behind or in the middle (multi-byte characters straddling every small byte offset); 24 integer targets x 33 payloads"}]
_more("C11", "enum", "derive-fns-enum", "harnesses", ["derive_cont9b"])
_more("C11", "kani", "derive-fns", "thorough_filters", ["h_derive::proofs::derive_cont9b::check"])
_more("C07", "enum", "derive-keys-enum", "harnesses", ["derive_camel2_2", "derive_big22"])
_more("C08", "enum", "derive-missing-enum", "harnesses", ["derive_big22"])
_more("C09", "enum", "derive-unknown-enum", "harnesses", ["derive_camel2_2", "derive_big22"])
for _p in ("C01", "C02", "C03", "C04"):
    _more(_p, "enum", "derive-core-enum", "harnesses", ["derive_cont9b", "derive_camel2_2"])
for _p in ("C07", "C09"):
    PROPS[_p]["text"] += " A 22-field struct (one field skipped and one renamed in the middle; native execution only) pins the declaration order of the accepted list and the key of every field beyond the sizes at which slice sorts change algorithm; identifiers that are already camelCase / mixed case under rename_all = camelCase (Camel2) are in both catalogues."

# after the sixth batch of seeded changes
for _p in ("C01", "C02", "C03", "C04"):
    _more(_p, "enum", "derive-core-enum", "harnesses", ["derive_tagboth_2", "derive_tagval_2", "derive_unitsv"])
_more("C07", "enum", "derive-keys-enum", "harnesses", ["derive_tagboth_2"])
_more("C09", "enum", "derive-unknown-enum", "harnesses", ["derive_tagboth_2"])
_more("C10", "enum", "derive-enum-enum", "harnesses", ["derive_tagboth_2", "derive_tagval_2", "derive_unitsv"])
_more("C11", "enum", "derive-fns-enum", "harnesses", ["derive_tagval_2", "derive_unitsv"])
_more("C12", "enum", "derive-total-enum", "harnesses", ["derive_tagboth_2", "derive_tagval_2", "derive_unitsv"])
PROPS["C12"]["units"] = PROPS["C12"]["units"] + [{"kind": "enum", "group": "message-text", "harnesses": ["msg_paths", "msg_readback"],
    "bounds": "building the built-in messages never panics: every location of depth <= 3 over 9 steps (incl. the empty key, a key with a dot, a key starting with a digit) x every error kind x both error types; 39 068 failing payloads of a composite derived type"}]
PROPS["C10"]["text"] += " Variants carrying BOTH rename and rename_all, written in either order or as two attributes (TagBoth), are in both catalogues."
PROPS["C11"]["text"] += " `validate` on enums (an internally tagged enum with unit variants, a unit-only enum read from a string): bounded harnesses derive_tagval_2 / derive_unitsv."

# after the seventh batch of seeded changes
_more("C19", "enum", "value-paths", "harnesses", ["value_long_paths"])
for _p, _g in (("C02", "derive-core-enum"), ("C04", "derive-core-enum"), ("C08", "derive-missing-enum"), ("C09", "derive-unknown-enum"), ("C12", "derive-total-enum")):
    _more(_p, "enum", _g, "harnesses", ["derive_nested_in_containers"])
PROPS["C08"]["text"] += " Derived structs nested in a Vec, a BTreeMap and an Option (1-3 elements, each fine / lacking a field / lacking both / with an invalid value / with an unknown key), keep-going error type: every missing / unknown / invalid report is made at the element it belongs to (native execution, bounded)."
PROPS["C19"]["text"] = PROPS["C19"].get("text", "") + " Long paths (up to 40 steps, four phases of a repeating key / index pattern) are executed natively as a bounded companion (an implementation that treats short paths specially cannot hide behind the 6-step enumeration)."

_more("C18", "enum", "did-you-mean", "harnesses", ["dym_pairs_multibyte"])
PROPS["C18"]["text"] += " A second exhaustive pair domain uses an alphabet of a 1-, a 2- and a 3-byte character (44 044 pairs), so that byte length (which fixes the budget) and character count (which the distance counts) disagree in every way they can."

# C13: container part, bounded
PROPS["C13"]["units"] = PROPS["C13"]["units"] + [{"kind": "enum", "group": "json-documents", "harnesses": ["json_documents"],
    "bounds": "797 603 documents: nesting depth <= 2, arrays / objects of width <= 2 (keys `k`, `l l`), scalars from the statement's boundary set (0, 7, 2^53+1, u64::MAX, -1, -2^53-1, i64::MIN, 1.5, -0.0, a subnormal, 1e300, 2^64 as float, two strings with escapes / non-ASCII, null, booleans)"}]
PROPS["C13"]["technique"] += " + exhaustive native execution of the real impls on every document up to a small size bound (container contents; bounded)"
PROPS["C13"]["text"] += " Container part (BOUNDED, native execution of the real code, labelled so): every document of depth <= 2 and width <= 2 over the boundary scalars is viewed through deserr and rebuilt through From<Value> and through the Deserr impl with a recording error type; the result must be the same document (numbers compared by representation class and bits, so 0.0 / -0.0 and 2^64-as-float are distinguished), no report may be made, and kind() must equal the kind of the consumed view at every node."
PROPS["C13"]["level_note"] = "Scalar part complete (Kani, full domains) and the source side unbounded (Verus json_source); contents of rebuilt arrays / objects: bounded exhaustive execution (depth <= 2, width <= 2), not proved."
for _u in PROPS["C13"]["units"]:
    if _u.get("group") == "json-scalars":
        _u["assumptions"] = [a for a in _u["assumptions"] if not a.startswith("strings, arrays and objects")]

# C14: path rendering and containment under contract; message text bounded
PROPS["C14"] = {
    "title": "Built-in error messages name the right place, value and alternatives", "level": "other",
    "technique": "Verus on the extracted location_json_description / location_query_param_description (path rendering for every location of every depth, equal to the statement's rendering) and on JsonError::error / QueryParamError::error (always Break; the message contains the rendered path and the pieces the statement lists per kind, via generated contracts for each format! template) + bounded exhaustive native execution of the real message builders (text of every kind at every path of depth <= 3; read-back of the quoted path against the payload for a composite derived type)",
    "design_ref": "DESIGN.md §A.8, §4 C14",
    "units": [_ERRORS_UNIT, {"kind": "enum", "group": "message-text", "harnesses": ["msg_paths", "msg_readback"],
              "bounds": "msg_paths: 259 locations (depth <= 3 over 3 keys and 3 indices) x 6 kinds (x up to 8 payload variants) x both error types = 3 885 runs; msg_readback: one composite derived type (struct / Vec / BTreeMap / Option / tuple / nested struct with deny_unknown_fields and defaults), every payload obtained from a valid document by one or two faults (replace by one of 9 values / remove first member / add unknown member / grow or shrink an array) at any node = 39 068 failing payloads"}],
    "text": "Deductive part (Verus unit `messages`, all inputs): (1) the nested `rec` functions of both location renderers return exactly the statement's rendering of the location -- `.key` per member and `[i]` per element from the payload root, for query parameters the same without the leading dot -- by induction over the location (decreases), and the outer functions return nothing at the root and ` article `path`` otherwise; (2) JsonError::error and QueryParamError::error always answer Break, and the message they build contains, as contiguous pieces, the rendered path (when not at the root), and per kind: the missing field; the unknown key / value and the suggestion did_you_mean computes for it; the received and expected lengths and the JSON text of the array; the detail message; the description of the offending value and the expected-kinds phrase; (3) merge returns the handed error. Wording is not pinned: a reworded message that still contains the pieces verifies. format! is handled by rewrite R9: each call with plain `{}` / `{name}` holes becomes a generated stand-in whose assumed contract is the concatenation of the literal pieces and the Display text of the arguments; `String + &str` by R10. Bounded part (native execution, labelled so): exact location descriptions, message == root message with only the location piece inserted, pieces per kind incl. every accepted alternative between backticks and a suggestion only when one is close, and -- end to end through deserr::deserialize -- the message is the one of the first report of a keep-going run and the path read back from it resolves in the payload to the value / object / array the message talks about.",
    "level_note": "Path rendering and containment: proved for all locations / reports (relative to the R9 contracts for format! and the stand-ins for value_kinds_description_json (C17), did_you_mean (C18), serde_json::to_string). The list of accepted alternatives (an iterator chain inside a format! argument) is opaque in Verus and covered by the bounded part only; message text beyond containment is bounded.",
    "explanation": "Partial deductive proof (path rendering for every depth, containment of the pieces, fail-fast structure) + bounded exhaustive execution for the text itself.",
    "assumptions": ["R9: format!(template, args) == concatenation of the template's literal pieces and the Display text of the arguments, Display of String / &str is its characters, Display of usize is one fixed (uninterpreted) decimal rendering",
                    "R10: String + &str appends", "value_kinds_description_json, value_description_with_kind_json, value_description_with_kind_query_param, did_you_mean are functions of their arguments (opaque stand-ins); serde_json::to_string never fails on a Value",
                    "ErrorKind / Value / IntoValue / Sequence / Map / ValuePointerRef are the repository's own definitions (extracted); serde_json::Value is an opaque stand-in"],
}

# C05: text of the domain errors and string contents, bounded
PROPS["C05"]["units"] = PROPS["C05"]["units"] + [{"kind": "enum", "group": "scalar-text", "harnesses": ["scalar_messages", "scalar_text_contents"],
    "bounds": "scalar_messages: 24 integer / NonZero targets x 33 integer payloads around every bound (2^8, 2^16, 2^32, 2^63, 2^64 +-1, their negative halves, 0, +-70000); scalar_text_contents: all 156 strings of 0..=3 scalar values over {a, e-acute, euro sign, an emoji, a backtick}"}]
PROPS["C05"]["technique"] += " + bounded exhaustive native execution for the text of the domain errors and for string / char contents"
PROPS["C05"]["text"] += " BOUNDED part (native execution, labelled so): for every integer / NonZero target and 33 payloads around the bounds, the detail message of the domain error contains the received number and the violated bound (MAX or MIN of the target) between backticks, or names the zero and a bound; for all 156 strings of up to three 1-4 byte characters, String returns the same text, char succeeds exactly on one-character strings with that character and otherwise names the length and the string (or says it is empty)."
PROPS["C05"]["level_note"] = "Complete for numbers/bool/unit/kinds (no unwinding bound is hit: unwinding assertions are on). Message wording of the domain errors and multi-character string / char contents: bounded exhaustive execution (not proved)."
for _u in PROPS["C05"]["units"]:
    if _u.get("group") == "scalars":
        _u["assumptions"] = [a.replace("char contents beyond the empty string (str::chars / count under CBMC ran > 20 min per string) are NOT decided here", "char contents beyond the empty string are covered by the bounded native unit scalar-text only (str::chars / count under CBMC ran > 20 min per string)") for a in _u["assumptions"]]

# after the eighth batch of seeded changes
for _p in ("C01", "C02", "C03", "C04"):
    _more(_p, "enum", "derive-core-enum", "harnesses", ["derive_tagunits_2", "derive_defmiss_2"])
_more("C10", "enum", "derive-enum-enum", "harnesses", ["derive_tagunits_2"])
_more("C12", "enum", "derive-total-enum", "harnesses", ["derive_tagunits_2", "derive_defmiss_2"])
_more("C07", "enum", "derive-keys-enum", "harnesses", ["derive_defmiss_2"])
_more("C08", "enum", "derive-missing-enum", "harnesses", ["derive_defmiss_2"])
_more("C15", "enum", "derive-order-enum", "harnesses", ["order_fns5_3"])
PROPS["C10"]["text"] += " An internally tagged enum whose variants are ALL unit variants (TagUnits: tag before / after the other member, known / unknown / wrongly-cased / non-string tag) is in the bounded catalogue."
PROPS["C08"]["text"] += " `default` together with `missing_field_error` on one field (DefMiss: the default wins, the function is never called), and fields whose deserr attribute follows a multi-segment tool attribute (`#[rustfmt::skip]`) or `#[allow(..)]`, are in the bounded catalogue."
PROPS["C07"]["text"] += " Fields whose deserr attribute follows a multi-segment tool attribute (`#[rustfmt::skip]`) or `#[allow(..)]` (DefMiss) are in the bounded catalogue."
PROPS["C15"]["text"] += " The struct with function attributes (Fns5: missing_field_error = f, deny_unknown_fields = f, map) in all six orders of three members (native execution only)."
# scalars: C01 / C04 obligations of the complete scalar harnesses (ok_only_if_nothing_reported, exactly_one_report_at_the_given_location, actual_is_the_value_found)
for _p in ("C01", "C04"):
    PROPS[_p]["units"] = PROPS[_p]["units"] + [dict(PROPS["C05"]["units"][0])]
    PROPS[_p]["text"] += " Scalars (24 integer / NonZero types, floats, bool, unit, kind part of String / char): the complete loop-free Kani harnesses of C05 carry this property's obligations too (Ok only when the error type was never called; a failure is exactly one report at the given location, with the value found)."

# after the ninth batch of seeded changes (size- and type-dependent slips)
for _p in ("C01", "C02", "C03", "C04", "C06", "C12"):
    _more(_p, "enum", "containers-enum", "harnesses", ["cont_zst"]) if any(u.get("group") == "containers-enum" for u in PROPS[_p]["units"]) else None
_more("C13", "enum", "json-documents", "harnesses", ["json_large_documents"])
PROPS["C06"]["text"] += " Zero-sized element types (`()`, PhantomData) in Vec / HashSet / BTreeSet (bounded, native: 0..=3 elements, fine or of a wrong kind, every answer sequence): the length is the payload's, faults inside the elements are reported."
PROPS["C13"]["text"] += " LARGE documents (bounded, native): 1 / 126..129 / 300 / 1000 / 4097 containers side by side in six shapes (records in a list, members of an object, mixed empty and non-empty containers, lists in a list, depth-4 records) and chains up to 300 deep are rebuilt through both routes -- an implementation that counts, caps or budgets containers cannot hide behind the small exhaustive domain."
PROPS["C14"]["text"] += " The received value of an IncorrectValueKind report includes strings that JSON text must escape (quotes, backslash, control characters, DEL, combining / zero-width / astral characters): the JSON message quotes exactly serde_json's text of the value."
PROPS["C16"]["text"] = PROPS["C16"]["text"].replace("79 hand-written derive inputs (9 valid controls, 70 poisoned", "84 hand-written derive inputs (10 valid controls, 74 poisoned")

# after the tenth batch of seeded changes (values, sizes and inner types that the small exhaustive domains did not vary)
for _p in ("C01", "C02", "C03", "C04", "C06", "C12"):
    _more(_p, "enum", "containers-enum", "harnesses", ["cont_option_inner_null"]) if any(u.get("group") == "containers-enum" for u in PROPS[_p]["units"]) else None
_more("C19", "enum", "value-paths", "harnesses", ["value_step_values"])
_more("C18", "enum", "did-you-mean", "harnesses", ["dym_generated"])
PROPS["C06"]["text"] += " Option<T> for inner types that themselves accept null (Option<_>, (), PhantomData, Box<Option<_>>; also inside a Vec): null is None at the outermost Option (bounded, native)."
PROPS["C19"]["text"] += " Boundary VALUES of steps (index 0 / 1 / usize::MAX / 2^60 / 4096, the empty key, equal neighbouring steps) at every position of paths of up to 4 steps (bounded, native)."
PROPS["C18"]["text"] += " Generated long inputs (bounded, native): received words of every length 0..=40 with candidates at 0..=7 edits (substitution, deletion, insertion, adjacent transposition, and a transposed pair with an insertion between its letters -- where the restricted and the unrestricted Damerau-Levenshtein distance differ) in lists of 0..=8 candidates."
PROPS["C14"]["text"] += " Accepted lists of 0, 1, 2, 3 and 5 alternatives: the alternatives listed after `expected one of` are read back from both messages and must be exactly the accepted list, in order."

# after the eleventh batch of seeded changes (names, positions and attribute placement the catalogues did not vary)
_ODD = ["derive_lowerodd_2", "derive_lowerodd_3", "derive_camelodd_2", "derive_camelodd_3", "derive_mapskip_2", "derive_mapskip_3", "derive_unitsodd"]
for _p in ("C01", "C02", "C03", "C04"):
    _more(_p, "enum", "derive-core-enum", "harnesses", _ODD)
_more("C12", "enum", "derive-total-enum", "harnesses", _ODD)
_more("C07", "enum", "derive-keys-enum", "harnesses", _ODD[:6])
_more("C08", "enum", "derive-missing-enum", "harnesses", _ODD[:6])
_more("C09", "enum", "derive-unknown-enum", "harnesses", ["derive_camelodd_2", "derive_camelodd_3"])
_more("C10", "enum", "derive-enum-enum", "harnesses", ["derive_unitsodd"])
_more("C11", "enum", "derive-fns-enum", "harnesses", ["derive_mapskip_2", "derive_mapskip_3"])
_more("C15", "enum", "derive-order-enum", "harnesses", ["order_camel_3d", "order_deny4_3d", "order_fns5_3d"])
for _p in ("C07", "C08", "C09"):
    PROPS[_p]["text"] += " Identifiers the renaming rules must treat exactly (bounded, native): non-ASCII capitals and digits under rename_all = lowercase (LowerOdd), a digit followed by a letter and a trailing digit under camelCase with deny_unknown_fields (CamelOdd: a4addr -> a4Addr, x2d -> x2D, foo_bar9 -> fooBar9), each with the near-miss spellings in the dictionary; two and three members."
PROPS["C10"]["text"] += " Variant identifiers with underscores, leading lower case and digits under camelCase (UnitsOdd: Http_Server -> httpServer, read_write -> readWrite, V2Beta -> v2Beta, a renamed variant), with the near-miss spellings as tags."
PROPS["C11"]["text"] += " `map` on a field declared after a skipped field (MapSkip): the value obligation (what the functions return is what ends up in the result) now carries this property's label too."
PROPS["C15"]["text"] += " Three members of which at least two carry the SAME key (an order-preserving source can present that) in all six orders, for Camel, Deny4 and Fns5: same multiset of reports (the value on success is not compared there: the last occurrence wins)."

# after the twelfth batch of seeded changes
_more("C06", "enum", "containers-enum", "harnesses", ["cont_arrays_n"])
_more("C13", "enum", "json-documents", "harnesses", ["json_string_values"])
PROPS["C06"]["text"] += " Fixed-size arrays of arity 0, 1 and 3 over u8 elements, payload lengths 0..=4 (bounded, native; the Verus contract covers every N)."
PROPS["C13"]["text"] += " Strings and keys whose TEXT looks like another kind of JSON value (`42`, `-0`, `1e3`, `true`, `null`, `[]`, a 100-digit string ...) or needs escaping, at the root, in arrays, as object values and as keys: they stay strings through both routes (bounded, native)."
PROPS["C14"]["text"] += " QueryParamError quotes a received scalar as written (decimal for every u64 / i64 incl. u64::MAX, 2^63, i64::MIN; booleans; the raw string)."
PROPS["C16"]["text"] = PROPS["C16"]["text"].replace("84 hand-written derive inputs (10 valid controls, 74 poisoned", "95 hand-written derive inputs (10 valid controls, 85 poisoned")
PROPS["C16"]["text"] += " Near-miss spellings of the rename_all value (CamelCase, camel_case, CAMEL_CASE, camelcase, Lowercase, LOWERCASE, lowerCase, lower_case) at container and variant level are among the poisoned inputs."

# after the thirteenth batch of seeded changes
PROPS["C13"]["text"] += " The complete float harness (all f64) also requires the rebuilt number to be HELD as a float (is_f64) through both routes: a whole-valued float is never turned into an integer."
PROPS["C14"]["text"] += " Whole-valued floats (3.0, -2.0, 1e16) are among the received values: JsonError quotes them as serde_json writes them."
PROPS["C16"]["text"] = PROPS["C16"]["text"].replace("95 hand-written derive inputs (10 valid controls, 85 poisoned", "102 hand-written derive inputs (10 valid controls, 92 poisoned")
PROPS["C16"]["text"] += " The bare `#[deserr]` and the name-value `#[deserr = \"..\"]` forms at container, field and variant level are among the poisoned inputs (any diagnostic inside the case's lines counts as the rejection)."

NOT_APPLICABLE = {
    "C20": "HTTP extractors are three-line async compositions of actix-web/axum extractors with deserr::deserialize; neither installed verifier can run or specify the frameworks (futures, pinning, runtime), so every obligation would be an assumed contract on actix/axum with nothing left to prove; the features are off by default and not compiled in the baseline.",
}
