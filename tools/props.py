"""Which units decide which property.  MANIFEST.json is generated from this table (tools/gen_manifest.py)."""
import os, json
VERIF = os.path.dirname(os.path.dirname(os.path.abspath(__file__)))

def baseline_labels(unit, pid):
    """labels that verified on the unchanged tree (contracts/baseline_obligations.json)"""
    path = os.path.join(VERIF, "contracts", "baseline_obligations.json")
    if not os.path.exists(path):
        return []
    d = json.load(open(path))
    return [l for l, ps in d.get(unit, {}).items() if pid in ps]

_CONTAINER_ASSUME = [
    "error-type contract (the clause 'as long as the error type itself keeps what it is handed'): DeserializeError::error appends exactly one Report event, MergeWithError::merge appends the handed error's events plus one Handover event, to the ghost trace; the Continue/Break answer is unconstrained",
    "value-source contract: Sequence::len/into_iter and Map::len/into_iter agree with the ghost views elems()/entries(); into_value is a function (spec_into_value)",
    "element/field types are only known through the Deserr trait contract (modular: a caller is checked against the callee's contract); integer/float/char scalars are shown to satisfy the executable form of that contract by the Kani scalar harnesses (C05)",
]

PROPS = {
    "C19": {
        "title": "Value pointers faithfully record the path that was pushed",
        "level": "proof",
        "technique": "Verus: contracts on src/value.rs verbatim (ghost view path(): Seq<Step>; loop invariant on to_owned); unbounded",
        "design_ref": "DESIGN.md §4 C19",
        "units": [{"kind": "verus", "unit": "value"}],
        "text": "Every function of ValuePointerRef (push_key, push_index, is_origin, last_field, first_field, to_owned) is extracted from src/value.rs on each run and verified by Verus against a ghost view path(): Seq<Step>: push_* append exactly one step, is_origin <=> empty path, first/last_field equal recursive spec functions over the step sequence, to_owned lists exactly path() in order (loop invariant + termination). All paths, all lengths, unbounded.",
        "level_note": "Trusted: Verus/Z3; vstd specs for Vec::push, into_iter().rev().collect(), str::to_string; two stated std axioms (Option::or, Display for &str). Locations are only ever built by push_* from Origin, so 'any sequence of pushes' is induction over the two push contracts.",
        "assumptions": [],
    },
}

_IMPLS_UNIT = {"kind": "verus", "unit": "impls"}
_IMPLS_FUNCS = "(), bool, String, Vec<T>, Option<T>, Box<T>, HashSet<T>, BTreeSet<T>, [T; N], (A,B), (A,B,C), HashMap<K,T>, BTreeMap<K,T>, take_cf_content"

PROPS.update({
    "C01": {
        "title": "No reported error is ever lost: Ok only when nothing was reported",
        "level": "proof",
        "technique": "Verus: trait-level contracts on Deserr / DeserializeError / MergeWithError over a ghost trace of error()/merge() calls; every std container impl extracted from src/impls.rs and proved, unbounded, for every answer sequence",
        "design_ref": "DESIGN.md §3.3, §4 C01",
        "units": [_IMPLS_UNIT],
        "text": "For each std impl (" + _IMPLS_FUNCS + ") Verus proves, for all payloads, lengths and all Continue/Break answers: Ok ==> the payload has no fault (accepts), Err(e) ==> the ghost trace of e is non-empty, and the accumulator is None exactly while every child so far was accepted (loop invariant) -- so an accumulated error can neither be dropped nor a call succeed after a report. Derived types and serde_json::Value are decided by the Kani units when present in this check.",
        "level_note": "Relative to the error-type contract (trace view) and the value-source contract; derived structs/enums are outside Verus' reach and covered by bounded Kani harnesses only.",
        "assumptions": _CONTAINER_ASSUME,
    },
    "C02": {
        "title": "Keep-going error types receive every independent fault exactly once",
        "level": "proof",
        "technique": "Verus: postcondition `no stop answer ==> trace(e) == spec_trace(value, path)` where spec_trace is the keep-going reference semantics written from the statement; loop invariants carry it (acc_ok)",
        "design_ref": "DESIGN.md §3.3, §4 C02",
        "units": [_IMPLS_UNIT],
        "text": "spec_trace (per impl) is the in-order concatenation of the children's keep-going traces, each followed by one hand-over, or the single structural report (wrong kind, wrong arity, unparsable key). Verus proves for every std impl: if no call was answered Break then the trace of the returned error has exactly the length and the events of spec_trace (agree_until_stop + complete), for all payloads and lengths.",
        "level_note": "Relative to the trait contracts; masking rules (wrong container kind / arity hide children) are how spec_trace is defined, one clause each, from the property text.",
        "assumptions": _CONTAINER_ASSUME,
    },
    "C03": {
        "title": "A stop answer ends the work; fail-fast result = first keep-going report",
        "level": "proof",
        "technique": "Verus: postconditions agree_until_stop (every event up to and including the first stopped one equals the keep-going run) and stop_then_handover (after a stop only the hand-over to the parent can follow); accumulator invariant 'never ends on a stop'",
        "design_ref": "DESIGN.md §3.3, §4 C03",
        "units": [_IMPLS_UNIT],
        "text": "For every std impl and every answer sequence Verus proves: (S1) an event answered Break is the last event of the container it was produced in -- the only call that can follow is the parent's hand-over; (U) all events up to and including the first Break are the events of the keep-going run at the same positions. Hence an always-Break error type returns exactly spec_trace[0] followed by hand-overs.",
        "level_note": "Relative to the trait contracts. That JsonError/QueryParamError always answer Break is decided separately (C14 unit) when present.",
        "assumptions": _CONTAINER_ASSUME,
    },
    "C04": {
        "title": "Every report points at the real culprit: location and payload match input",
        "level": "proof",
        "technique": "Verus: `requires under(merge_location, trace(other))` on MergeWithError::merge (checked at every call site), `under(location, trace(e))` postcondition, and event equality with spec_trace (path, actual value id, kind, accepted list, arity)",
        "design_ref": "DESIGN.md §3.3, §4 C04",
        "units": [_IMPLS_UNIT],
        "text": "Every merge call site must prove that the hand-over location is an ancestor-or-self of every event handed over; every returned trace lies under the location given; and (through agree_until_stop) each event carries the path, the identity and kind of the actual value, the accepted kinds / expected length that spec_trace computes from the payload at that position. Proved for every std impl at every index / key.",
        "level_note": "Relative to the trait contracts; value identity is an uninterpreted token (equal values have equal tokens). Derived types: Kani units.",
        "assumptions": _CONTAINER_ASSUME,
    },
    "C06": {
        "title": "Containers keep structure: order, arity, None-iff-null, set and map semantics",
        "level": "proof",
        "technique": "Verus: `Ok(v) ==> v.represents(value)` with per-impl ghost relation (Vec/array/tuple: element i from payload element i; Option: None iff null; Box transparent); arity errors are part of spec_trace",
        "design_ref": "DESIGN.md §4 C06",
        "units": [_IMPLS_UNIT],
        "text": "Verus proves for Vec, [T;N], (A,B), (A,B,C), Option, Box: the result represents the payload element-wise in order with nothing dropped/duplicated (loop invariant seq_repr), arrays/tuples accept exactly their arity and otherwise report BadSequenceLen with the whole sequence and N, Option is None exactly for Null. Set/map *contents* and CS lists have no vstd model and are decided by bounded Kani harnesses when present.",
        "level_note": "Relative to the trait contracts and the std axiom 'Vec<T> -> [T;N] try_into succeeds iff len == N, keeping order'.",
        "assumptions": _CONTAINER_ASSUME,
    },
})

_SCALAR_HARNESSES = ["h_scalars::proofs::scalar_u", "h_scalars::proofs::scalar_i", "h_scalars::proofs::scalar_nz", "h_scalars::proofs::scalar_f",
                     "h_scalars::proofs::scalar_bool", "h_scalars::proofs::scalar_unit", "h_scalars::proofs::scalar_string_kinds", "h_scalars::proofs::scalar_char_"]
PROPS["C05"] = {
    "title": "Scalars accept exactly the representable values, exactly, and say why not",
    "level": "proof",
    "technique": "Kani/CBMC on the real compiled macro instances: one loop-free harness per scalar type over every payload kind with full-domain symbolic u64 / i64 / f64 (complete, not bounded); contract = assume-nothing / assert-postcondition around the real function",
    "design_ref": "DESIGN.md §4 C05",
    "units": [{"kind": "kani", "group": "scalars", "filters": _SCALAR_HARNESSES, "need_stub": True, "timeout": 1200,
               "assumptions": ["alloc::fmt::format is stubbed (message text of the domain error is not inspected; only its kind, location and multiplicity)",
                               "usize/isize are 64-bit (x86_64)",
                               "String contents are proved in the Verus unit (represents: the result is the payload string); char contents beyond the empty string (str::chars / count under CBMC ran > 20 min per string) are NOT decided here; the kind part of both is full-domain"]}],
    "text": "For each of the 24 integer / NonZero types, f32, f64, bool, (), and the kind part of String/char, a Kani harness gives the real `deserialize_from_value` a payload of any kind whose number is a fully symbolic u64 / i64 / f64 and asserts the postcondition taken from the statement: Ok(v) iff kind admissible and value in [MIN, MAX] (non-zero for NonZero) and then v == value in 128-bit arithmetic (floats: bit-equal to the IEEE conversion, and integers <= 2^53 / 2^24 convert back exactly); otherwise exactly one report, at the given location, IncorrectValueKind with exactly the admissible kinds as a set (and the actual kind found) when the kind is wrong, Unexpected when only the domain is wrong. Loop-free over the full domain => complete.",
    "level_note": "Complete for numbers/bool/unit/kinds (no unwinding bound is hit: unwinding assertions are on). Message wording and multi-character string contents are not decided here.",
    "assumptions": [],
}

NOT_APPLICABLE = {
    "C20": "HTTP extractors are three-line async compositions of actix-web/axum extractors with deserr::deserialize; neither installed verifier can run or specify the frameworks (futures, pinning, runtime), so every obligation would be an assumed contract on actix/axum with nothing left to prove; the features are off by default and not compiled in the baseline.",
}
