"""Run one Verus unit: extract from the repo, verify, map failures to labelled obligations."""
import os, re, json, subprocess, time, hashlib

VERIF = os.path.dirname(os.path.dirname(os.path.abspath(__file__)))
BUILD = os.path.join(VERIF, ".build", "verus")

LABEL_RE = re.compile(r"\[((?:C\d{2}|AUX)(?:,C\d{2})*):([A-Za-z0-9_.\-]+)\]")

class UnitResult:
    def __init__(self, unit):
        self.unit = unit
        self.status = "ok"          # ok | violation | undecided
        self.reason = ""
        self.functions = []         # functions under contract (from the extractor report)
        self.rewrites = []
        self.dropped_members = []
        self.verified = 0
        self.errors = 0
        self.func_results = []      # per function: name, success, smt micros
        self.failed = []            # [{labels:[(props,name)], message, lines, text}]
        self.labels_present = {}    # label -> [props]
        self.smt_ms = 0
        self.wall_s = 0.0
        self.assumptions = []
        self.cmd = ""
        self.raw_err = ""
        self.out_file = ""

def scan_assumptions(text):
    """mechanical scan of the generated file for everything that is assumed rather than proved"""
    res = []
    lines = text.split("\n")
    for i, l in enumerate(lines):
        s = l.strip()
        if s.startswith("// ASSUME:"):
            res.append(s[3:])
        for kw in ("assume_specification", "external_body", "admit(", "assume(", "external_type_specification", "external_trait_specification", "#[verifier::external]", "exec_allows_no_decreases_clause"):
            if kw in s and not s.startswith("//"):
                # name what follows
                ctx = s
                if kw in ("external_body", "external_type_specification", "external_trait_specification") and i + 1 < len(lines):
                    j = i + 1
                    while j < len(lines) and (lines[j].strip().startswith("#[") or not lines[j].strip()):
                        j += 1
                    if j < len(lines):
                        ctx = kw + ": " + lines[j].strip()
                res.append("verus:" + ctx[:200])
    # dedupe, keep order
    seen, out = set(), []
    for r in res:
        if r not in seen:
            seen.add(r); out.append(r)
    return out

def parse_errors(stderr, gen_lines, fname):
    """split rustc-style diagnostics; return list of dicts"""
    blocks = re.split(r"\n(?=(?:error|warning|note)(?:\[[A-Z0-9]+\])?: )", "\n" + stderr)
    errs = []
    for b in blocks:
        b = b.strip("\n")
        m = re.match(r"^(error|warning|note)(\[[A-Z0-9]+\])?: (.*)", b)
        if not m:
            continue
        kind, code, msg = m.group(1), m.group(2), m.group(3).split("\n")[0]
        if kind != "error":
            continue
        if msg.startswith("aborting due to"):
            continue
        lines = [int(x) for x in re.findall(r"^\s*(\d+) \|", b, flags=re.M)]
        m2 = re.search(r"--> " + re.escape(fname) + r":(\d+):(\d+)", b)
        if m2:
            lines.insert(0, int(m2.group(1)))
        labels = []
        for ln in lines:
            if 1 <= ln <= len(gen_lines):
                for lm in LABEL_RE.finditer(gen_lines[ln-1]):
                    lab = (tuple(lm.group(1).split(",")), lm.group(2))
                    if lab not in labels:
                        labels.append(lab)
        errs.append({"code": code, "message": msg, "lines": lines, "labels": labels, "text": b[:3000], "primary": int(m2.group(1)) if m2 else None})
    return errs

PANIC_CLASSES = ("precondition not satisfied", "possible arithmetic underflow/overflow", "possible division by zero", "arithmetic underflow", "arithmetic overflow",
                 "index out of bounds", "possible bit shift")

def real_code_lines(gen_lines):
    """line numbers (1-based) that hold extracted repository code: inside a take region and not marked as inserted ghost text"""
    real = set()
    in_prelude = False
    for i, l in enumerate(gen_lines, 1):
        if "==== ghost/prelude text begin ====" in l: in_prelude = True; continue
        if "==== ghost/prelude text end ====" in l: in_prelude = False; continue
        if in_prelude or l.rstrip().endswith("//~g") or l.startswith("// ---- "):
            continue
        real.add(i)
    return real

def enclosing_fn(gen_lines, ln):
    """name of the fn (and impl header) enclosing generated line ln (best effort, for reporting)"""
    fn, impl = None, None
    for i in range(min(ln, len(gen_lines)) - 1, -1, -1):
        l = gen_lines[i]
        if fn is None:
            m = re.search(r"\bfn\s+([A-Za-z0-9_]+)", l)
            if m and "spec fn" not in l and "proof fn" not in l:
                fn = m.group(1)
        m = re.match(r"^\s*(?:pub\s+)?(?:impl|trait)\b(.*)", l)
        if m and fn is not None:
            impl = l.strip().rstrip("{").strip()
            break
    return fn, impl

def run_unit(unit, repo="/repo", extra_args=None, timeout=900):
    r = UnitResult(unit)
    os.makedirs(BUILD, exist_ok=True)
    spec = os.path.join(VERIF, "contracts", unit + ".vspec")
    if unit == "derive":
        # generated contract: real expansion of the derive for the struct catalogue (tools/derive_unit.py)
        import derive_unit
        try:
            spec = derive_unit.prepare(repo)
        except Exception as e:
            r.status = "undecided"; r.reason = "derive expansion / contract generation failed: " + str(e)[:1500]
            return r
    out = os.path.join(BUILD, unit + ".rs")
    rep = os.path.join(BUILD, unit + ".report.json")
    r.out_file = out
    t0 = time.time()
    for p in (out, rep):
        if os.path.exists(p):
            os.remove(p)
    p = subprocess.run(["python3", os.path.join(VERIF, "tools", "extract.py"), spec, repo, out, rep],
                       capture_output=True, text=True)
    if os.path.exists(rep):
        report = json.load(open(rep))
        r.functions = report.get("functions", [])
        r.rewrites = report.get("rewrites", [])
        r.dropped_members = report.get("dropped_members", [])
    if p.returncode != 0:
        r.status = "undecided"
        r.reason = (p.stdout + p.stderr).strip()[:2000]
        r.wall_s = time.time() - t0
        return r
    gen = open(out).read()
    gen_lines = gen.split("\n")
    for ln in gen_lines:
        for lm in LABEL_RE.finditer(ln):
            r.labels_present.setdefault(lm.group(2), set()).update(lm.group(1).split(","))
    r.assumptions = scan_assumptions(gen)
    cmd = ["verus", os.path.basename(out), "--output-json", "--time", "--multiple-errors", "40", "--num-threads", "8"] + (extra_args or [])
    r.cmd = " ".join(cmd)
    try:
        p = subprocess.run(cmd, cwd=BUILD, capture_output=True, text=True, timeout=timeout)
    except subprocess.TimeoutExpired:
        r.status = "undecided"; r.reason = f"verus timeout after {timeout}s"; r.wall_s = time.time() - t0
        return r
    r.raw_err = p.stderr
    try:
        j = json.loads(p.stdout)
    except Exception:
        r.status = "undecided"; r.reason = "verus produced no JSON: " + (p.stderr[-1500:] or p.stdout[-500:])
        r.wall_s = time.time() - t0
        return r
    vr = j.get("verification-results", {})
    r.verified = vr.get("verified", 0)
    r.errors = vr.get("errors", 0)
    tm = j.get("times-ms", {})
    try:
        r.smt_ms = tm["smt"]["smt-run"] if isinstance(tm.get("smt"), dict) else 0
    except Exception:
        r.smt_ms = 0
    try:
        for mod in j["func-details"].values() if isinstance(j.get("func-details"), dict) else []:
            pass
    except Exception:
        pass
    # per function details
    def walk(o):
        if isinstance(o, dict):
            if "function" in o and "success" in o:
                r.func_results.append({"function": o["function"], "mode": o.get("mode:", o.get("mode", "")), "success": o["success"], "micros": o.get("time-micros", 0), "rlimit": o.get("rlimit", 0)})
            for v in o.values():
                walk(v)
        elif isinstance(o, list):
            for v in o:
                walk(v)
    walk(j.get("times-ms", {}))
    errs = parse_errors(p.stderr, gen_lines, os.path.basename(out))
    r.wall_s = time.time() - t0
    if vr.get("encountered-vir-error") or any(e["code"] for e in errs) or (not vr and p.returncode != 0):
        # rustc / VIR level error: the extracted text is not accepted -> machinery problem, not an alarm
        r.status = "undecided"
        first = next((e for e in errs if e["code"]), errs[0] if errs else None)
        r.reason = "verus rejected the extracted text: " + (first["text"][:1500] if first else p.stderr[-1500:])
        return r
    rlimit_hit = ("rlimit" in p.stderr and "exceeded" in p.stderr) or "Resource limit" in p.stderr
    if r.errors == 0 and vr.get("success"):
        r.status = "ok"
        if r.verified == 0:
            r.status = "undecided"; r.reason = "vacuous: verus verified 0 functions"
        return r
    real = real_code_lines(gen_lines)
    for e in errs:
        # a panic-class failure whose primary span is extracted repository code (not inserted ghost text): C12
        e["panic_in_real_code"] = bool(e.get("primary") in real and not e["labels"] and any(c in e["message"] for c in PANIC_CLASSES))
    for e in errs:
        if e["lines"]:
            # the trait-level ensures line comes first; the impl that failed it is the span further down the file
            fn, impl = enclosing_fn(gen_lines, max(e["lines"]))
            e["fn"], e["impl"] = fn, impl
            # an impl may carry labels of its own (`//@impl-labels [..]` right after its header): a trait-level obligation failing
            # in that impl is then also attributed to them
            if impl and e["labels"]:
                for i in range(min(max(e["lines"]), len(gen_lines)) - 1, -1, -1):
                    if gen_lines[i].strip().rstrip("{").strip() == impl:
                        for l in gen_lines[i + 1:i + 6]:
                            if "//@impl-labels" in l:
                                for lm in LABEL_RE.finditer(l):
                                    lab = (tuple(lm.group(1).split(",")), lm.group(2))
                                    if lab not in e["labels"]:
                                        e["labels"].append(lab)
                        break
    r.failed = errs
    r.status = "violation"
    if rlimit_hit:
        # a resource-limit hit in one function is not a verdict about it; labelled failures elsewhere still count
        r.reason = "rlimit exceeded in at least one function (undecided for it)"
    return r
