"""Property driver: runs the units that decide a property, writes evidence, prints verdict lines."""
import os, sys, json, time, re, hashlib, subprocess
VERIF = os.path.dirname(os.path.dirname(os.path.abspath(__file__)))
sys.path.insert(0, os.path.join(VERIF, "tools"))
import verus_unit
import props as P

FIXED_ASSUMPTIONS = [
    "machine integers are Rust's (Verus models overflow; Kani checks it); usize/isize are 64-bit (x86_64 target)",
    "std collections / iterators / Option / Result behave per their documented contracts (vstd specs, or assume_specification lines listed below)",
    "the Rust compiler, Verus' erasure of ghost code and VIR->SMT encoding, Z3; Kani's MIR->GOTO translation and CBMC",
    "Verus results are relative to the trait contracts in contracts/prelude: the error type keeps what it is handed (trace contract), the value source is well-formed (Sequence/Map/IntoValue contract)",
]

def load_known():
    path = os.path.join(VERIF, "known_findings.txt")
    findings, fixed = [], []
    if os.path.exists(path):
        for l in open(path):
            l = l.strip()
            if l.startswith("finding:"):
                m = re.match(r"finding:\s*property=(\S+)\s+key=(\S+)\s*(.*)", l)
                if m:
                    findings.append({"property": m.group(1), "key": m.group(2), "what": m.group(3)})
            elif l.startswith("fixed:"):
                fixed.append(l)
    return findings, fixed

def write_replay(pid, name, payload):
    d = os.path.join(VERIF, "replays")
    os.makedirs(d, exist_ok=True)
    path = os.path.join(d, f"{pid}-{re.sub(r'[^A-Za-z0-9_.-]+', '_', name)[:80]}.json")
    with open(path, "w") as f:
        json.dump(payload, f, indent=1)
    return path

def run_verus_for(pid, u, repo, tier):
    """returns dict(status, obligations, discharged, violations=[{key,desc,replay_payload}], info)"""
    r = verus_unit.run_unit(u["unit"], repo=repo)
    mine_labels = sorted(l for l, ps in r.labels_present.items() if pid in ps)
    info = {
        "engine": "verus", "unit": u["unit"], "cmd": r.cmd, "status": r.status,
        "functions_verified": r.verified, "function_errors": r.errors,
        "labelled_clauses_for_property": mine_labels,
        "smt_ms": r.smt_ms, "wall_s": round(r.wall_s, 2),
        "functions_under_contract": r.functions, "rewrites": r.rewrites, "dropped_members": r.dropped_members,
        "assumptions": r.assumptions,
        "per_function": [f for f in r.func_results if f.get("mode") in ("exec", "proof")][:200],
    }
    res = {"status": "ok", "obligations": 0, "discharged": 0, "violations": [], "info": info, "reason": ""}
    # baseline: every label that verified on the unchanged tree must still be present
    base = P.baseline_labels(u["unit"], pid)
    missing = [l for l in base if l not in mine_labels]
    if r.status == "undecided":
        res["status"] = "undecided"; res["reason"] = r.reason
        return res
    if missing:
        res["status"] = "undecided"; res["reason"] = f"labelled obligations lost from the generated file: {missing}"
        return res
    failed_mine, failed_other, failed_unlabelled = [], [], []
    # an [AUX:..] obligation (the bundle that repeats the labelled clauses) is implied by them: it only counts when it fails alone
    labelled_fns = set((e.get("impl"), e.get("fn")) for e in r.failed if any(ps != ("AUX",) for ps, _ in e["labels"]))
    for e in r.failed:
        labs = [l for l in e["labels"] if l[0] != ("AUX",)]
        if not labs and e["labels"]:
            if (e.get("impl"), e.get("fn")) in labelled_fns:
                continue
            e = dict(e); e["labels"] = []
        if pid == "C12" and e.get("panic_in_real_code"):
            e = dict(e); e["labels"] = [(("C12",), "no_panic")]
            failed_mine.append(e)
        elif any(pid in ps for ps, _ in labs):
            failed_mine.append(e)
        elif labs:
            failed_other.append(e)
        else:
            failed_unlabelled.append(e)
    # obligations: the labelled clauses of this property + every verified function of the unit
    n_fn = r.verified + r.errors
    if pid == "C12":
        mine_labels = ["no_panic_in_" + f["function"].split("::")[-2] + "::" + f["function"].split("::")[-1] for f in r.func_results if f.get("mode") == "exec"][:400]
        info["labelled_clauses_for_property"] = mine_labels[:12]
    res["obligations"] = len(mine_labels) + n_fn
    failed_label_names = set()
    for e in failed_mine:
        for ps, name in e["labels"]:
            if pid in ps:
                failed_label_names.add(name)
    bad_fns = set((e.get("impl"), e.get("fn")) for e in failed_mine + failed_unlabelled)
    # a function whose only failures are obligations of *other* properties still discharged this property's clauses
    res["discharged"] = len(mine_labels) - len(failed_label_names) + n_fn - len(bad_fns)
    info["failed_other_properties"] = [{"labels": [n for _, n in e["labels"]], "message": e["message"], "fn": e.get("fn")} for e in failed_other]
    info["failed_unlabelled"] = [{"message": e["message"], "fn": e.get("fn"), "lines": e["lines"][:3]} for e in failed_unlabelled]
    if failed_mine:
        res["status"] = "violation"
        for e in failed_mine:
            names = [n for ps, n in e["labels"] if pid in ps]
            short_impl = re.sub(r"[^A-Za-z0-9]+", "_", (e.get("impl") or "").split(" for ")[-1])[:40].strip("_")
            key = f"verus:{u['unit']}:{'+'.join(names)}:{short_impl or e.get('fn')}"
            res["violations"].append({
                "key": key,
                "desc": f"{e['message']} -- obligation [{','.join(names)}] in fn {e.get('fn')} ({e.get('impl')})",
                "payload": {"engine": "verus", "unit": u["unit"], "obligation": names, "fn": e.get("fn"), "impl": e.get("impl"),
                            "verifier_output": e["text"], "generated_file": r.out_file, "cmd": r.cmd},
                "ce_harnesses": u.get("ce_harnesses", {}),
            })
    elif failed_unlabelled and not failed_other:
        res["status"] = "undecided"
        res["reason"] = "an unlabelled proof step failed (no property obligation named): " + "; ".join(f"{e['message']} in {e.get('fn')}" for e in failed_unlabelled[:3])
    elif r.status == "violation" and not failed_other and not failed_unlabelled:
        res["status"] = "undecided"; res["reason"] = "verus reported errors that could not be attributed: " + r.raw_err[-800:]
    return res

RUNNERS = {"verus": run_verus_for}

def register_runner(kind, fn):
    RUNNERS[kind] = fn

try:
    import kani_unit
    register_runner("kani", kani_unit.run_kani_for)
    register_runner("enum", kani_unit.run_enum_for)
except ImportError:
    pass
try:
    import ui_unit
    register_runner("ui", ui_unit.run_ui_for)
except ImportError:
    pass
try:
    import native_unit
    register_runner("native", native_unit.run_native_for)
except ImportError:
    pass

def run_property(pid, tier, seed, repo, write_evidence=True):
    if pid not in P.PROPS:
        print(f"unknown or unclaimed property {pid}")
        return 2
    spec = P.PROPS[pid]
    t0 = time.time()
    units = [u for u in spec["units"] if tier == "thorough" or not u.get("thorough_only")]
    results = []
    for u in units:
        runner = RUNNERS.get(u["kind"])
        if runner is None:
            results.append({"status": "undecided", "reason": f"no runner for {u['kind']}", "obligations": 0, "discharged": 0, "violations": [], "info": {"engine": u["kind"]}})
            continue
        if u["kind"] == "verus":
            results.append(runner(pid, u, repo, tier))
        else:
            results.append(runner(pid, u, repo, tier, seed))
    findings, fixed = load_known()
    violations, known_hits = [], []
    for r in results:
        for v in r["violations"]:
            k = next((f for f in findings if f["property"] == pid and f["key"] == v["key"]), None)
            if k:
                known_hits.append((k, v))
            else:
                violations.append(v)
    undecided = [r for r in results if r["status"] == "undecided"]
    # ---- evidence
    # (an undecided unit contributes no obligations to this run: what it could not decide is listed under coverage.undecided)
    obligations = sum(r["obligations"] for r in results if r["status"] != "undecided")
    discharged = sum(r["discharged"] for r in results if r["status"] != "undecided")
    wall = time.time() - t0
    assumptions = list(FIXED_ASSUMPTIONS) + list(spec.get("assumptions", []))
    for r in results:
        for a in r["info"].get("assumptions", []):
            if a not in assumptions:
                assumptions.append(a)
    samples = []
    for r in results:
        samples.extend(r["info"].get("samples", []))
        for l in r["info"].get("labelled_clauses_for_property", [])[:6]:
            samples.append({"obligation": l, "engine": "verus", "unit": r["info"].get("unit")})
    if not samples:
        samples = [{"note": "no sample recorded"}]
    level = spec["level"]
    cov = {
        "obligations": obligations, "discharged": discharged,
        "checker_cmd": "; ".join(r["info"].get("cmd", "") for r in results if r["info"].get("cmd"))[:4000],
        "trusted_base": ["verus 0.2026.09.13 + z3", "kani 0.68.0 + cbmc 6.11", "rustc"] + spec.get("trusted_base", []),
        "samples": samples[:40],
        "explanation": spec.get("explanation", ""),
        "units": [r["info"] for r in results],
        "bounded_parts": [r["info"].get("bounds") for r in results if r["info"].get("bounds")],
        "proved_parts": [f"{r['info'].get('engine')}:{r['info'].get('unit', r['info'].get('group'))}" for r in results if not r["info"].get("bounds") and r["status"] == "ok"],
        "undecided": [r["reason"] for r in undecided],
        "decided_this_run": ("all units" if not undecided else "only: " + ", ".join(f"{r['info'].get('engine')}:{r['info'].get('unit', r['info'].get('group'))}" for r in results if r["status"] == "ok")),
        "known_findings_hit": [k["key"] for k, _ in known_hits],
        "fixed_entries": fixed,
    }
    states = sum(r["info"].get("states", 0) for r in results)
    if level == "model_checking":
        cov["states"] = max(states, 1)
        cov["transitions"] = max(sum(r["info"].get("transitions", 0) for r in results), 1)
        cov["traces_validated_against_impl"] = sum(r["info"].get("traces_validated", 0) for r in results)
    evals = sum(r["info"].get("evaluations", 0) for r in results)
    if evals:
        cov["evaluations"] = evals
        cov["distinct_nontrivial"] = sum(r["info"].get("distinct_nontrivial", 0) for r in results)
        cov["rule"] = "; ".join(r["info"].get("rule", "") for r in results if r["info"].get("rule"))
    ev = {
        "property_id": pid, "tier": tier, "seed": seed, "level": level,
        "coverage": cov, "assumptions": assumptions, "wall_s": round(wall, 2),
        "violations": len(violations),
    }
    if write_evidence:
        os.makedirs(os.path.join(VERIF, "evidence"), exist_ok=True)
        with open(os.path.join(VERIF, "evidence", f"{pid}.json"), "w") as f:
            json.dump(ev, f, indent=1, default=str)
    # ---- verdict lines
    for k, v in known_hits:
        print(f"KNOWN-FINDING: property={pid} {k['what']} [{v['key']}]")
    for r in results:
        i = r["info"]
        print(f"[{pid}] {i.get('engine')}:{i.get('unit', i.get('group', ''))} status={r['status']} obligations={r['obligations']} discharged={r['discharged']} wall={i.get('wall_s')}s" + (f" reason={r['reason'][:600]}" if r["reason"] else ""))
    if violations:
        for v in violations:
            payload = dict(v["payload"]); payload["property"] = pid; payload["key"] = v["key"]; payload["desc"] = v["desc"]
            suffix = ""
            if not payload.get("failing_input"):
                # try to obtain a concrete failing input from the bounded harnesses of the same function
                ce = None
                if v.get("ce_harnesses") and "kani" in RUNNERS:
                    try:
                        ce = kani_unit.find_counterexample(pid, v, repo)
                    except Exception as e:  # never let the CE search mask the violation
                        payload["ce_search_error"] = str(e)
                if ce:
                    payload["failing_input"] = ce
                else:
                    suffix = " no-failing-input-found"
            path = write_replay(pid, v["key"], payload)
            print(f"  failed: {v['desc']}")
            print(f"VIOLATION property={pid} replay={path}{suffix}")
        return 1
    if undecided:
        # A unit is undecided when the machinery could not carry the code (lost anchor, construct outside the extractor's rewrites,
        # resource limit, tool failure): that is never an alarm.  If every *other* unit of the property decided and held, the
        # property held on everything explored: exit 0, with the undecided units named (and listed in the evidence).  Only when
        # nothing decided is the whole check undecided (exit 2).
        decided = [r for r in results if r["status"] == "ok" and r["discharged"] > 0 and r["discharged"] == r["obligations"]]
        others_ok = all(r["status"] in ("ok", "undecided") for r in results)
        for r in undecided:
            i = r["info"]
            print(f"UNDECIDED-UNIT property={pid} unit={i.get('engine')}:{i.get('unit', i.get('group', ''))}: {r['reason'][:300]}")
        if decided and others_ok:
            print(f"OK property={pid} tier={tier} obligations={obligations} discharged={discharged} wall={wall:.1f}s partial={len(undecided)}-of-{len(results)}-units-undecided (held on everything explored; see evidence.coverage.undecided)")
            return 0
        print(f"UNDECIDED property={pid}: " + " | ".join(r["reason"][:300] for r in undecided))
        return 2
    if obligations == 0 or discharged != obligations:
        print(f"UNDECIDED property={pid}: vacuous or incomplete run (obligations={obligations}, discharged={discharged})")
        return 2
    print(f"OK property={pid} tier={tier} obligations={obligations} discharged={discharged} wall={wall:.1f}s")
    return 0

def replay(pid, path, repo):
    payload = json.load(open(path))
    print(json.dumps({k: payload.get(k) for k in ("property", "key", "desc", "obligation", "fn", "impl", "failing_input")}, indent=1))
    if payload.get("engine") == "verus" and not payload.get("failing_input"):
        # re-run the unit and show whether the named obligation still fails
        u = {"kind": "verus", "unit": payload["unit"]}
        r = run_verus_for(pid, u, repo, "quick")
        still = any(v["key"] == payload.get("key") for v in r["violations"])
        print("obligation still fails on the current tree" if still else "obligation is discharged on the current tree")
        return 1 if still else 0
    if "kani" in RUNNERS:
        return kani_unit.replay_native(payload, repo)
    return 2
