#!/usr/bin/env python3
"""Mechanical extractor + annotator: /repo sources -> one `verus!{}` file per unit.

Usage: extract.py <contract.vspec> <repo-root> <out.rs> [<report.json>]

The executable text that reaches Verus is cut out of the repository *on every run*; the
contract file only says which items to take and which ghost text (requires / ensures /
invariant / proof blocks / spec fns) to insert where.  The only rewrites applied to
executable tokens are the ones listed in DROPS below; each application is recorded in the
report so the evidence can state exactly what differs from the code that runs.

Exit status: 0 ok; 2 = an item / anchor named by the contract was not found or is
ambiguous, or a construct outside the supported rewrites was met ("undecided": a
machinery problem, never an alarm).
"""
import sys, os, re, json, hashlib
sys.path.insert(0, os.path.dirname(os.path.abspath(__file__)))
from rustlex import tokenize, code_toks, norm, match_close, split_items, Item, LexError

DROPS = {
    "D1": "outer attributes (#[derive], #[must_use], #[track_caller], #[doc]) and visibility-irrelevant doc comments of taken items are dropped unless listed by @@keep-attrs",
    "D2": "token substitutions requested by @@subst (each listed with its text)",
    "D3": "macro_rules! templates are instantiated textually ($t -> type, $crate -> crate)",
    "R1": "`for P in X { B }` -> `let mut it = X; loop { let P = match it.next() { Some(v) => v, None => break }; B }` and `for (i, P) in X.enumerate()` -> the same plus `let mut i: usize = 0;` before and `i += 1;` as last statement of the body (Rust's own desugaring of `for`, and the definition of `enumerate`); the enumerate form is refused if B contains `continue` (in the plain form `continue` means the same in both loops)",
    "R2": "`format!(..)` -> call of an external_body fn `fmt_opaque() -> String` (message text is not reasoned about in Verus)",
    "R3": "named return value: `-> T` becomes `-> (r: T)` (ghost naming only)",
    "R7": "`match X { \"lit\" => {B1} .. ident => {Bn} }` (first arm a string literal) -> `{ let m__ = X; if str_eq(m__, \"lit\") {B1} else if .. else { let ident = m__; {Bn} } }` -- Rust's own semantics of matching a &str against literal patterns, first match wins; `str_eq` is specified as equality of the character sequences",
    "R8": "`let P = X.ok_or_else(|| E)?;` -> `let P = match X { ::std::option::Option::Some(v__) => v__, ::std::option::Option::None => return ::std::result::Result::Err(E) };` (the definition of Option::ok_or_else followed by `?` in a function whose error type is the closure's result type)",
    "R9": "(opt-in, replaces R2) `format!(\"p0{}p1{name}p2\", a)` with only plain `{}` / `{ident}` holes -> `fmt_<hash>(&(a), &(name))`, a generated external_body fn whose assumed contract is `r@ == \"p0\"@ + a.disp() + \"p1\"@ + name.disp() + \"p2\"@` (std's documented meaning of a format string; `disp` is the Display rendering: the characters of a String / &str, the uninterpreted decimal rendering of an integer); an argument that contains a closure is replaced by an opaque String under the R4 conditions; any format spec (`{:?}`, width, positional index, named argument) is refused",
    "R10": "(opt-in) a chain `A + B + C` in a function where `+` is only used on Strings -> `str_add(str_add(A, B), C)`; `str_add(a: String, b: &str)` is specified as concatenation of the character sequences (std: `impl Add<&str> for String` appends)",
    "R11": "(opt-in) tail expression `X.map_err(|v| B)` -> `match X { ::std::result::Result::Ok(o__) => ::std::result::Result::Ok(o__), ::std::result::Result::Err(v) => ::std::result::Result::Err(B) }` (the definition of Result::map_err; a closure without annotations has no postcondition in Verus)",
    "R4": "expressions replaced by an opaque value on request of @@opaque-arg (only if they contain no return / ? / break / continue)",
}

class Undecided(Exception):
    pass

# ----------------------------------------------------------------------------------------
# contract file parsing
# ----------------------------------------------------------------------------------------
def parse_vspec(path):
    directives = []
    cur = None
    with open(path) as f:
        for ln, line in enumerate(f, 1):
            if line.startswith("@@"):
                parts = line[2:].rstrip("\n")
                name, _, arg = parts.partition(" ")
                cur = {"name": name.strip(), "arg": arg.strip(), "text": [], "line": ln, "file": path}
                directives.append(cur)
            elif cur is not None:
                cur["text"].append(line)
            elif line.strip() and not line.startswith("#"):
                raise Undecided(f"{path}:{ln}: text before first directive")
    for d in directives:
        d["text"] = "".join(d["text"])
    return directives

# ----------------------------------------------------------------------------------------
# helpers on code-token lists
# ----------------------------------------------------------------------------------------
def strip_attrs(ct, lo):
    i = lo
    while i + 1 < len(ct) and ct[i].text == "#" and ct[i+1].text == "[":
        i = match_close(ct, i + 1) + 1
    return i

def find_items(src, selector_norm):
    toks = tokenize(src)
    ct = code_toks(toks)
    res = []
    for it in split_items(src, ct, 0, len(ct)):
        _, h = it.header_no_attrs()
        if selector_norm in h:
            res.append(it)
    return ct, res

def nsel(s):
    return norm(tokenize(s))

GHOST_MARK = " //~g"
def ghost(text):
    """mark every line of inserted ghost text, so a verifier message can be told apart from one about extracted code"""
    out = []
    for l in text.split("\n"):
        out.append(l + GHOST_MARK if l.strip() else l)
    return "\n".join(out)

class Edits:
    def __init__(self, base):
        self.base = base
        self.ed = []   # (start, end, text, order)
    def insert(self, pos, text, mark=True):
        if mark and "\n" in text:
            text = ghost(text)
        self.ed.append((pos, pos, text, len(self.ed)))
    def replace(self, start, end, text):
        self.ed.append((start, end, text, len(self.ed)))
    def apply(self, src, lo, hi):
        """apply to src[lo:hi] (absolute offsets)"""
        out = []
        cur = lo
        for (s, e, t, _) in sorted(self.ed, key=lambda x: (x[0], x[3])):
            if s < cur:
                raise Undecided(f"overlapping edits at {s}")
            out.append(src[cur:s]); out.append(t); cur = e
        out.append(src[cur:hi])
        return "".join(out)

# ----------------------------------------------------------------------------------------
# rewrites on a function's text
# ----------------------------------------------------------------------------------------
def rewrite_format(text, notes, where):
    """R2"""
    while True:
        ct = code_toks(tokenize(text))
        hit = None
        for i in range(len(ct) - 2):
            if ct[i].kind == "ident" and ct[i].text == "format" and ct[i+1].text == "!" and ct[i+2].text in ("(", "["):
                hit = i; break
        if hit is None:
            return text
        j = match_close(ct, hit + 2)
        notes.append({"rule": "R2", "where": where, "dropped": text[ct[hit].start:ct[j].end]})
        text = text[:ct[hit].start] + "fmt_opaque()" + text[ct[j].end:]

FMT_DECLS = {}   # name -> declaration text (R9)

def _split_args(ct, lo, hi):
    """split ct[lo:hi] at depth-0 commas -> list of (a, b) index ranges (non-empty)"""
    res, k, start = [], lo, lo
    while k < hi:
        if ct[k].kind == "punct" and ct[k].text in "([{":
            k = match_close(ct, k) + 1; continue
        if ct[k].kind == "punct" and ct[k].text == ",":
            if k > start: res.append((start, k))
            start = k + 1
        k += 1
    if hi > start: res.append((start, hi))
    return res

def rewrite_format_template(text, notes, where):
    """R9"""
    while True:
        ct = code_toks(tokenize(text))
        hit = None
        for i in range(len(ct) - 2):
            if ct[i].kind == "ident" and ct[i].text == "format" and ct[i+1].text == "!" and ct[i+2].text in ("(", "["):
                hit = i; break
        if hit is None:
            return text
        j = match_close(ct, hit + 2)
        args = _split_args(ct, hit + 3, j)
        if not args or args[0][1] - args[0][0] != 1 or ct[args[0][0]].kind != "str" or not ct[args[0][0]].text.startswith('"'):
            raise Undecided(f"{where}: format! whose first argument is not a plain string literal: rewrite R9 refused")
        lit = ct[args[0][0]].text[1:-1]
        if "\\u" in lit:
            raise Undecided(f"{where}: format! literal with a \\u escape: rewrite R9 refused")
        # parse the template
        pieces, holes, cur, k = [], [], "", 0
        while k < len(lit):
            c = lit[k]
            if c == "\\":
                cur += lit[k:k+2]; k += 2; continue
            if c == "{":
                if lit.startswith("{{", k):
                    cur += "{"; k += 2; continue
                e = lit.find("}", k)
                if e < 0:
                    raise Undecided(f"{where}: malformed format string: rewrite R9 refused")
                h = lit[k+1:e]
                if h != "" and not re.fullmatch(r"[A-Za-z_][A-Za-z0-9_]*", h):
                    raise Undecided(f"{where}: format hole `{{{h}}}` has a format spec or a positional index: rewrite R9 refused")
                pieces.append(cur); cur = ""; holes.append(h); k = e + 1; continue
            if c == "}":
                if lit.startswith("}}", k):
                    cur += "}"; k += 2; continue
                raise Undecided(f"{where}: malformed format string: rewrite R9 refused")
            cur += c; k += 1
        pieces.append(cur)
        exprs = []
        for (a, b) in args[1:]:
            toks = ct[a:b]
            if len(toks) >= 2 and toks[0].kind == "ident" and toks[1].text == "=" and not (len(toks) > 2 and toks[2].text == "="):
                raise Undecided(f"{where}: named format argument: rewrite R9 refused")
            if any(t.kind == "punct" and t.text == "|" for t in toks):
                for t in toks:
                    if (t.kind == "ident" and t.text in ("return", "break", "continue")) or (t.kind == "punct" and t.text == "?"):
                        raise Undecided(f"{where}: R9/R4 refused: control flow inside a dropped format argument")
                notes.append({"rule": "R4", "where": where, "dropped_sha256": hashlib.sha256(norm(toks).encode()).hexdigest(), "dropped_tokens": len(toks), "context": "format argument containing a closure"})
                exprs.append("opaque_string()")
            else:
                exprs.append(text[toks[0].start:toks[-1].end])
        actual, pos = [], 0
        for h in holes:
            if h == "":
                if pos >= len(exprs):
                    raise Undecided(f"{where}: format! with fewer arguments than holes: rewrite R9 refused")
                actual.append(exprs[pos]); pos += 1
            else:
                actual.append(h)
        if pos != len(exprs):
            raise Undecided(f"{where}: format! with unused arguments: rewrite R9 refused")
        name = "fmt_" + hashlib.sha256(("\x00".join(pieces)).encode()).hexdigest()[:10]
        n = len(actual)
        terms = []
        for q, p in enumerate(pieces):
            if p != "": terms.append(f'"{p}"@')
            if q < n: terms.append(f"a{q}.disp()")
        rhs = " + ".join(terms) if terms else "Seq::<char>::empty()"
        gen = "<" + ", ".join(f"A{q}: DispView" for q in range(n)) + ">" if n else ""
        params = ", ".join(f"a{q}: &A{q}" for q in range(n))
        FMT_DECLS[name] = (f"// ASSUME:fmt R9: format!(\"{lit}\", ..) renders its pieces and the Display text of its arguments, in order\n"
                           f"#[verifier::external_body]\npub fn {name}{gen}({params}) -> (r: String)\n    ensures r@ == {rhs},\n{{ unimplemented!() }}\n")
        call = f"{name}(" + ", ".join(f"&({e})" for e in actual) + ")"
        notes.append({"rule": "R9", "where": where, "template": lit, "holes": len(actual), "stand_in": name})
        text = text[:ct[hit].start] + call + text[ct[j].end:]

_STRPLUS_LEFT_STOP = ("{", ";", ",", "(", "=", "return", "else")
def rewrite_strplus(text, notes, where):
    """R10"""
    while True:
        ct = code_toks(tokenize(text))
        hit = None
        for i, t in enumerate(ct):
            if t.kind == "punct" and t.text == "+" and not (i + 1 < len(ct) and ct[i+1].text == "=" and ct[i+1].start == t.end):
                hit = i; break
        if hit is None:
            return text
        # left boundary
        a = hit - 1
        while a >= 0:
            t = ct[a]
            if t.kind == "punct" and t.text in ")]}":
                # jump to the matching opener
                depth, b = 0, a
                while b >= 0:
                    if ct[b].kind == "punct" and ct[b].text in ")]}": depth += 1
                    elif ct[b].kind == "punct" and ct[b].text in "([{":
                        depth -= 1
                        if depth == 0: break
                    b -= 1
                a = b - 1; continue
            if (t.kind == "punct" and t.text in ("{", ";", ",", "(", "=", "[")) or (t.kind == "ident" and t.text in ("return", "else")) or \
               (t.kind == "punct" and t.text == ">" and a > 0 and ct[a-1].text == "=" and ct[a-1].end == t.start):
                break
            a -= 1
        lo = a + 1
        # right boundary
        b = hit + 1
        while b < len(ct):
            t = ct[b]
            if t.kind == "punct" and t.text in "([{":
                b = match_close(ct, b) + 1; continue
            if t.kind == "punct" and t.text in (",", ";", ")", "}", "]"):
                break
            b += 1
        hi = b
        ops, k, start = [], lo, lo
        while k < hi:
            t = ct[k]
            if t.kind == "punct" and t.text in "([{":
                k = match_close(ct, k) + 1; continue
            if t.kind == "punct" and t.text == "+":
                ops.append((start, k)); start = k + 1
            elif t.kind == "punct" and t.text in ("-", "/", "%", "<", ">", "|", "=", "?") or (t.kind == "ident" and t.text in ("as", "if", "match")):
                raise Undecided(f"{where}: operand of `+` is not a simple expression: rewrite R10 refused")
            k += 1
        ops.append((start, hi))
        if any(e <= s for (s, e) in ops):
            raise Undecided(f"{where}: empty operand of `+`: rewrite R10 refused")
        parts = [text[ct[s].start:ct[e-1].end] for (s, e) in ops]
        acc = parts[0]
        for p in parts[1:]:
            acc = f"str_add({acc}, {p})"
        notes.append({"rule": "R10", "where": where, "operands": len(parts)})
        text = text[:ct[lo].start] + acc + text[ct[hi-1].end:]

def split_nested(fn_dirs, where):
    """@@nested NAME .. @@end-nested groups -> (outer directives, {NAME: directives})"""
    outer, nested, cur = [], {}, None
    for d in fn_dirs:
        if d["name"] == "nested":
            cur = d["arg"]; nested.setdefault(cur, [])
        elif d["name"] == "end-nested":
            cur = None
        elif cur is not None:
            nested[cur].append(d)
        else:
            outer.append(d)
    return outer, nested

def annotate_nested(text, nested, where, notes):
    for name, dirs in nested.items():
        ct = code_toks(tokenize(text))
        hits = [i for i in range(1, len(ct) - 1) if ct[i].kind == "ident" and ct[i].text == "fn" and ct[i+1].text == name and i > 2]
        if len(hits) != 1:
            raise Undecided(f"{where}: nested fn `{name}`: {len(hits)} matches -- lost item")
        i = hits[0]
        k = i
        while not (ct[k].kind == "punct" and ct[k].text == "{"):
            if ct[k].kind == "punct" and ct[k].text in "([":
                k = match_close(ct, k)
            k += 1
        c = match_close(ct, k)
        inner = apply_dirs(text[ct[i].start:ct[c].end], dirs, f"{where}::{name}", notes)
        text = text[:ct[i].start] + inner + text[ct[c].end:]
    return text

def rewrite_strmatch(text, notes, where):
    """R7"""
    while True:
        ct = code_toks(tokenize(text))
        hit = None
        for i, t in enumerate(ct):
            if t.kind == "ident" and t.text == "match":
                k = i + 1
                while k < len(ct) and not (ct[k].kind == "punct" and ct[k].text == "{"):
                    if ct[k].kind == "punct" and ct[k].text in "([":
                        k = match_close(ct, k)
                    k += 1
                if k + 1 < len(ct) and ct[k+1].kind == "str":
                    hit = (i, k); break
        if hit is None:
            return text
        i, k = hit
        close = match_close(ct, k)
        scrut = text[ct[i+1].start:ct[k-1].end]
        arms = []
        j = k + 1
        while j < close:
            pat = ct[j]
            if not (ct[j+1].text == "=" and ct[j+2].text == ">" and ct[j+3].text == "{") or not (pat.kind in ("str", "ident") or pat.text == "_"):
                raise Undecided(f"{where}: string match with an arm outside the supported shape (`pattern => {{ block }}`): rewrite R7 refused")
            e = match_close(ct, j + 3)
            arms.append((pat, text[ct[j+3].start:ct[e].end]))
            j = e + 1
            if j < close and ct[j].text == ",":
                j += 1
        out = ["{ let m__ = " + scrut + "; "]
        for n, (pat, b) in enumerate(arms):
            if pat.kind == "str":
                out.append(("if " if n == 0 else " else if ") + f"str_eq(m__, {pat.text}) " + b)
            else:
                if n != len(arms) - 1:
                    raise Undecided(f"{where}: catch-all arm is not last: rewrite R7 refused")
                out.append(" else " + b if pat.text == "_" else " else { let " + pat.text + " = m__; " + b + " }")
        out.append(" }")
        notes.append({"rule": "R7", "where": where, "arms": [p.text for p, _ in arms]})
        text = text[:ct[i].start] + "".join(out) + text[ct[close].end:]

def rewrite_ok_or_else(text, notes, where):
    """R8 (statement form only)"""
    while True:
        ct = code_toks(tokenize(text))
        hit = None
        for i, t in enumerate(ct):
            if t.kind == "ident" and t.text == "ok_or_else" and ct[i-1].text == "." and ct[i+1].text == "(" and ct[i+2].text == "|" and ct[i+3].text == "|":
                hit = i; break
        if hit is None:
            return text
        close = match_close(ct, hit + 1)
        if not (ct[close+1].text == "?" and ct[close+2].text == ";"):
            raise Undecided(f"{where}: ok_or_else not followed by `?;`: rewrite R8 refused")
        # receiver: back to the `=` of the enclosing `let`
        j = hit - 2
        depth = 0
        while j >= 0:
            tt = ct[j].text
            if ct[j].kind == "punct" and tt in ")]}": depth += 1
            elif ct[j].kind == "punct" and tt in "([{":
                depth -= 1
            elif depth == 0 and tt == "=" and ct[j-1].text not in ("=", "!", "<", ">") and ct[j+1].text not in ("=", ">"):
                break
            elif depth == 0 and tt in (";",):
                raise Undecided(f"{where}: ok_or_else receiver is not a `let P = X.ok_or_else(..)?;` statement: rewrite R8 refused")
            j -= 1
        recv = text[ct[j+1].start:ct[hit-2].end]
        body = text[ct[hit+4].start:ct[close-1].end]
        new = ("match " + recv + " { ::std::option::Option::Some(v__) => v__, ::std::option::Option::None => return ::std::result::Result::Err(" + body + ") }")
        notes.append({"rule": "R8", "where": where, "receiver": norm(code_toks(tokenize(recv)))})
        text = text[:ct[j+1].start] + new + text[ct[close+1].end:]

def rewrite_map_err(text, notes, where):
    """R11 (tail-expression form only: the receiver starts right after the previous `;`)"""
    while True:
        ct = code_toks(tokenize(text))
        hit = None
        for i, t in enumerate(ct):
            if t.kind == "ident" and t.text == "map_err" and ct[i-1].text == "." and ct[i+1].text == "(" and ct[i+2].text == "|" and ct[i+3].kind == "ident" and ct[i+4].text == "|":
                hit = i; break
        if hit is None:
            return text
        close = match_close(ct, hit + 1)
        if ct[close+1].text != "}":
            raise Undecided(f"{where}: map_err is not the tail expression of a block: rewrite R11 refused")
        j = hit - 2; depth = 0
        while j >= 0:
            tt = ct[j].text
            if ct[j].kind == "punct" and tt in ")]}": depth += 1
            elif ct[j].kind == "punct" and tt in "([{":
                if depth == 0: break
                depth -= 1
            elif depth == 0 and tt == ";":
                break
            j -= 1
        recv = text[ct[j+1].start:ct[hit-2].end]
        var = ct[hit+3].text
        body = text[ct[hit+5].start:ct[close-1].end]
        for t in ct[hit+5:close]:
            if (t.kind == "ident" and t.text in ("return", "break", "continue")) or (t.kind == "punct" and t.text == "?"):
                raise Undecided(f"{where}: control flow inside the map_err closure: rewrite R11 refused")
        new = ("match " + recv + " { ::std::result::Result::Ok(o__) => ::std::result::Result::Ok(o__), ::std::result::Result::Err(" + var + ") => ::std::result::Result::Err(" + body + ") }")
        notes.append({"rule": "R11", "where": where, "receiver": norm(code_toks(tokenize(recv)))})
        text = text[:ct[j+1].start] + new + text[ct[close].end:]

_for_counter = [0]
def rewrite_for(text, notes, where):
    """R1 (repeated until no `for` loop is left)"""
    while True:
        ct = code_toks(tokenize(text))
        hit = None
        for i, t in enumerate(ct):
            if t.kind == "ident" and t.text == "for" and i + 1 < len(ct) and ct[i+1].text != "<":
                if i > 0 and ct[i-1].text in ("{", "}", ";", ">"):  # statement position ('>' of '=>')
                    hit = i; break
        if hit is None:
            return text
        # pattern up to `in` at depth 0
        j = hit + 1
        while not (ct[j].kind == "ident" and ct[j].text == "in"):
            if ct[j].text in "([{" and ct[j].kind == "punct":
                j = match_close(ct, j)
            j += 1
        pat_toks = ct[hit+1:j]
        k = j + 1
        while not (ct[k].kind == "punct" and ct[k].text == "{"):
            if ct[k].kind == "punct" and ct[k].text in "([":
                k = match_close(ct, k)
            k += 1
        expr_toks = ct[j+1:k]
        body_close = match_close(ct, k)
        body_toks = ct[k+1:body_close]
        has_continue = any(t.kind == "ident" and t.text == "continue" for t in body_toks)
        expr_text = text[expr_toks[0].start:expr_toks[-1].end]
        pat_text = text[pat_toks[0].start:pat_toks[-1].end]
        body_text = text[ct[k].end:ct[body_close].start]
        _for_counter[0] += 1
        itn = f"it__{_for_counter[0]}"
        en = norm(expr_toks)
        if en.endswith(".enumerate()"):
            # for (i, P) in X.enumerate(): a `continue` would skip the index increment that R1 puts at the end of the body
            if has_continue:
                raise Undecided(f"{where}: `continue` inside an enumerate() for body: rewrite R1 refused")
            # for (i, P) in X.enumerate()
            if not (pat_toks[0].text == "(" and pat_toks[1].kind == "ident" and pat_toks[2].text == ","):
                raise Undecided(f"{where}: enumerate() with a pattern that is not (ident, P)")
            idx = pat_toks[1].text
            close = match_close(pat_toks, 0)
            inner_pat = text[pat_toks[3].start:pat_toks[close-1].end]
            # strip `.enumerate()` (last 5 tokens: . enumerate ( ) )
            base_expr = text[expr_toks[0].start:expr_toks[-4].start]
            # the index name must not be used after the loop
            for t in ct[body_close+1:]:
                if t.kind == "ident" and t.text == idx:
                    raise Undecided(f"{where}: loop index `{idx}` is used after the loop: rewrite R1 refused")
            new = (f"/*@R1*/let mut {itn} = {base_expr}; let mut {idx}: usize = 0; loop {{ "
                   f"let {inner_pat} = match {itn}.next() {{ Some(v__) => v__, None => break }};"
                   f"{body_text} {idx} += 1; }}")
            notes.append({"rule": "R1", "where": where, "form": "enumerate", "iter": itn, "index": idx, "expr": en})
        else:
            new = (f"/*@R1*/let mut {itn} = {expr_text}; loop {{ "
                   f"let {pat_text} = match {itn}.next() {{ Some(v__) => v__, None => break }};"
                   f"{body_text} }}")
            notes.append({"rule": "R1", "where": where, "form": "plain", "iter": itn, "expr": en})
        text = text[:ct[hit].start] + new + text[ct[body_close].end:]

def find_anchor(text, ct, anchor, where):
    """statement-start positions whose normalised token stream starts with `anchor`"""
    a = nsel(anchor)
    nth = None
    m = re.match(r"^(.*)#(\d+)$", anchor.strip())
    if m:
        a = nsel(m.group(1)); nth = int(m.group(2))
    hits = []
    for i, t in enumerate(ct):
        if i > 0 and ct[i-1].text not in ("{", "}", ";", ">", ",", "("):
            continue
        # compare incrementally
        acc = norm(ct[i:i+40])
        if acc.startswith(a):
            hits.append(i)
    if nth is not None:
        if nth < 1 or nth > len(hits):
            raise Undecided(f"{where}: anchor {anchor!r}: occurrence {nth} not found ({len(hits)} hits)")
        return hits[nth-1]
    if len(hits) != 1:
        raise Undecided(f"{where}: anchor {anchor!r}: {len(hits)} matches (need exactly 1) -- lost anchor")
    return hits[0]

def loops_of(ct):
    """indices of loop keywords (`loop`, `while`) in order; returns list of (kw_index, body_open_index)"""
    res = []
    for i, t in enumerate(ct):
        if t.kind == "ident" and t.text in ("loop", "while"):
            k = i + 1
            while not (ct[k].kind == "punct" and ct[k].text == "{"):
                if ct[k].kind == "punct" and ct[k].text in "([":
                    k = match_close(ct, k)
                k += 1
            res.append((i, k))
    return res

def annotate_fn(text, fn_dirs, where, notes):
    """text: full source of one fn item (signature + body or `;`)."""
    _for_counter[0] = 0
    if any(d["name"] == "rewrite" and d["arg"] == "fmt_template" for d in fn_dirs):
        text = rewrite_format_template(text, notes, where)
    else:
        text = rewrite_format(text, notes, where)
    if any(d["name"] == "rewrite" and d["arg"] == "strplus" for d in fn_dirs):
        text = rewrite_strplus(text, notes, where)
    text = rewrite_for(text, notes, where)
    if any(d["name"] == "rewrite" and d["arg"] == "strmatch" for d in fn_dirs):
        text = rewrite_strmatch(text, notes, where)
    if any(d["name"] == "rewrite" and d["arg"] == "ok_or_else" for d in fn_dirs):
        text = rewrite_ok_or_else(text, notes, where)
    if any(d["name"] == "rewrite" and d["arg"] == "map_err" for d in fn_dirs):
        text = rewrite_map_err(text, notes, where)
    for d in fn_dirs:
        if d["name"] == "opaque-arg":
            text = opaque_arg(text, d, where, notes)
    fn_dirs, nested = split_nested(fn_dirs, where)
    if nested:
        text = annotate_nested(text, nested, where, notes)
    return apply_dirs(text, fn_dirs, where, notes)

def apply_dirs(text, fn_dirs, where, notes):
    ct = code_toks(tokenize(text))
    # drop attributes in front of the fn
    first = strip_attrs(ct, 0)
    base = ct[first].start
    ed = Edits(base)
    # signature end
    sig_end = None
    i = first
    while i < len(ct):
        t = ct[i]
        if t.kind == "punct" and t.text in "([":
            i = match_close(ct, i) + 1; continue
        if t.kind == "punct" and t.text in ("{", ";"):
            sig_end = i; break
        i += 1
    if sig_end is None:
        raise Undecided(f"{where}: no body/semicolon")
    has_body = ct[sig_end].text == "{"
    body_close = match_close(ct, sig_end) if has_body else None
    loops = loops_of(ct[: body_close + 1]) if has_body else []
    for d in fn_dirs:
        nm, arg, payload = d["name"], d["arg"], d["text"]
        if nm == "ret":
            # R3
            k = first
            arrow = None
            while k < sig_end:
                if ct[k].kind == "punct" and ct[k].text in "([":
                    k = match_close(ct, k) + 1; continue
                if ct[k].text == "-" and ct[k+1].text == ">" and ct[k].end == ct[k+1].start:
                    arrow = k; break
                k += 1
            if arrow is None:
                raise Undecided(f"{where}: @@ret but no return type")
            e = arrow + 2
            while e < sig_end and not (ct[e].kind == "ident" and ct[e].text == "where"):
                if ct[e].kind == "punct" and ct[e].text in "([":
                    e = match_close(ct, e)
                e += 1
            ed.insert(ct[arrow+2].start, f"({arg}: ", mark=False)
            ed.insert(ct[e-1].end, ")", mark=False)
            notes.append({"rule": "R3", "where": where, "name": arg})
        elif nm == "sig":
            ed.insert(ct[sig_end].start, "\n" + payload)
        elif nm == "body-start":
            ed.insert(ct[sig_end].end, "\n" + payload)
        elif nm == "body-end":
            ed.insert(ct[body_close].start, "\n" + payload)
        elif nm in ("loop", "loop-start", "loop-end", "after-loop", "before-loop", "loop-head"):
            k = int(arg)
            if k < 1 or k > len(loops):
                raise Undecided(f"{where}: loop {k} not found ({len(loops)} loops) -- lost anchor")
            kw, bo = loops[k-1]
            bc = match_close(ct, bo)
            if nm == "loop":
                ed.insert(ct[bo].start, "\n" + payload)
            elif nm == "loop-head":
                ed.insert(ct[bo].end, "\n" + payload)
            elif nm == "before-loop":
                # before the R1-introduced `let mut it__N = X;` (and index declaration) if this loop came from R1
                pos = ct[kw].start
                mk = text.rfind("/*@R1*/", 0, pos)
                if mk >= 0:
                    between = code_toks(tokenize(text[mk:pos]))
                    if not any(t.kind == "ident" and t.text in ("loop", "while", "for") for t in between) and \
                       all(t.text != "{" for t in between):
                        pos = mk
                ed.insert(pos, payload)

            elif nm == "loop-start":
                # after the R1 binding statement if the body starts with `let P = match it__N.next()`
                pos = ct[bo].end
                if norm(ct[bo+1:bo+12]).find("=match it__") >= 0:
                    q = bo + 1
                    while not (ct[q].text == ";" ):
                        if ct[q].kind == "punct" and ct[q].text in "([{":
                            q = match_close(ct, q)
                        q += 1
                    pos = ct[q].end
                ed.insert(pos, "\n" + payload)
            elif nm == "loop-end":
                # before the R1 `i += 1;` if present, else before the closing brace
                pos = ct[bc].start
                if bc >= 4 and ct[bc-1].text == ";" and ct[bc-2].text == "1" and ct[bc-3].text == "=" and ct[bc-4].text == "+":
                    pos = ct[bc-5].start
                ed.insert(pos, "\n" + payload)
            else:
                ed.insert(ct[bc].end, "\n" + payload)
        elif nm == "attr":
            ed.insert(ct[first].start, payload.strip() + "\n")
        elif nm in ("at", "at?"):
            mode, _, anchor = arg.partition(" ")
            anchor = anchor.strip()
            if anchor.startswith('"') and anchor.endswith('"'):
                anchor = anchor[1:-1]
            try:
                idx = find_anchor(text, ct, anchor, where)
            except Undecided as e:
                if nm == "at?":
                    notes.append({"rule": "lost-optional-anchor", "where": where, "anchor": anchor})
                    continue
                raise
            if mode == "before":
                ed.insert(ct[idx].start, payload)
            elif mode == "after":
                q = idx
                while not (ct[q].text == ";"):
                    if ct[q].kind == "punct" and ct[q].text in "([{":
                        q = match_close(ct, q)
                    q += 1
                ed.insert(ct[q].end, "\n" + payload)
            else:
                raise Undecided(f"{where}: @@at needs before|after")
        elif nm in ("fn", "opaque-arg", "rewrite"):
            pass
        else:
            raise Undecided(f"{d['file']}:{d['line']}: unknown fn directive @@{nm}")
    return ed.apply(text, base, len(text))

def opaque_arg(text, d, where, notes):
    """R4: `@@opaque-arg CALLPREFIX` replaces the parenthesised argument list of the unique call whose
    normalised text starts with CALLPREFIX by `(&opaque_string())`."""
    ct = code_toks(tokenize(text))
    idx = find_anchor(text, ct, d["arg"], where)
    q = idx
    while ct[q].text != "(":
        q += 1
    c = match_close(ct, q)
    inner = ct[q+1:c]
    for t in inner:
        if (t.kind == "ident" and t.text in ("return", "break", "continue")) or (t.kind == "punct" and t.text == "?"):
            raise Undecided(f"{where}: R4 refused: control flow inside the dropped expression")
    notes.append({"rule": "R4", "where": where, "dropped_sha256": hashlib.sha256(norm(inner).encode()).hexdigest(), "dropped_tokens": len(inner)})
    return text[:ct[q].end] + "&opaque_string()" + text[ct[c].start:]

# ----------------------------------------------------------------------------------------
# main assembly
# ----------------------------------------------------------------------------------------
def fn_name_of(it):
    i, _ = it.header_no_attrs()
    ct = it.ct
    stop = it.body_open if it.body_open is not None else it.hi
    for k in range(i, stop):
        if ct[k].kind == "ident" and ct[k].text == "fn":
            return ct[k+1].text
    return None

def process_take(repo, d, sub, report):
    fpath, _, selector = d["arg"].partition("::")
    fpath, selector = fpath.strip(), selector.strip()
    full = fpath if os.path.isabs(fpath) else os.path.join(repo, fpath)
    try:
        src = open(full).read()
    except OSError as e:
        raise Undecided(f"cannot read {full}: {e}")
    inst = None
    for s in sub:
        if s["name"] == "instantiate":
            inst = s["arg"]
    where0 = f"{fpath} :: {selector}"
    notes = report["rewrites"]
    if inst is not None:
        # D3: selector names a macro_rules!; instantiate with the given type
        ct, items = find_items(src, nsel("macro_rules!" + selector))
        if len(items) != 1:
            raise Undecided(f"{where0}: {len(items)} macro_rules matches")
        it = items[0]
        bo, bc = it.body_range()
        # body: ($t:ty) => { ... };
        inner = ct[bo+1:bc]
        # find `=>` then the `{`
        k = 0
        while not (inner[k].text == "=" and inner[k+1].text == ">"):
            k += 1
        k += 2
        ob = k
        cb = match_close(inner, ob)
        body = src[inner[ob].end:inner[cb].start]
        body = re.sub(r"\$t\b", inst, body)
        body = body.replace("$crate", "crate")
        notes.append({"rule": "D3", "where": where0, "type": inst})
        src = body
        selector = "impl"
        ct = code_toks(tokenize(src))
        items = split_items(src, ct, 0, len(ct))
        items = [x for x in items if x.header_no_attrs()[1].startswith("impl")]
    else:
        ct, items = find_items(src, nsel(selector))
    if len(items) != 1:
        raise Undecided(f"{where0}: {len(items)} items match (need exactly 1) -- lost item")
    it = items[0]
    first, header = it.header_no_attrs()
    line = src.count("\n", 0, ct[first].start) + 1
    item_src = src[ct[first].start:it.end]
    report["functions"].append({"file": fpath, "selector": selector if inst is None else f"{d['arg']} [{inst}]", "line": line,
                                "sha256": hashlib.sha256(norm(ct[first:it.hi]).encode()).hexdigest()})
    keep_attrs = "".join(f"#[{s['arg']}]\n" for s in sub if s["name"] == "keep-attrs")
    substs = [s for s in sub if s["name"] == "subst"]
    members = "".join(s["text"] for s in sub if s["name"] == "members")
    only = None
    for s in sub:
        if s["name"] == "only":
            only = s["arg"].split()
    # group fn directives
    fn_dirs = {}
    curfn = None
    toplevel_dirs = []
    for s in sub:
        if s["name"] == "fn":
            curfn = s["arg"]; fn_dirs.setdefault(curfn, [])
        elif s["name"] in ("keep-attrs", "subst", "members", "only", "instantiate"):
            continue
        elif curfn is not None:
            fn_dirs[curfn].append(s)
        else:
            toplevel_dirs.append(s)
    is_fn_item = re.match(r"^(pub(\([a-z]+\))? )?(const )?(unsafe )?fn\b", header) is not None
    if is_fn_item:
        name = fn_name_of(it)
        dirs = toplevel_dirs + fn_dirs.get(name, [])
        out = annotate_fn(item_src, dirs, f"{fpath}::{name}", notes)
    elif it.body_open is not None and re.match(r"^(pub )?(unsafe )?(impl|trait)\b", header):
        if toplevel_dirs:
            raise Undecided(f"{where0}: directives outside @@fn on an impl/trait")
        bo, bc = it.body_range()
        subitems = split_items(src, ct, bo + 1, bc)
        parts = [src[ct[first].start:ct[bo].end], "\n", ghost(members)]
        seen = set()
        for si in subitems:
            nm = fn_name_of(si)
            sfirst = strip_attrs(ct, si.lo)
            stext = src[ct[sfirst].start:si.end]
            if nm is None:
                # associated type / const: keep verbatim
                parts.append(stext + "\n"); continue
            if only is not None and nm not in only:
                report["dropped_members"].append(f"{where0}::{nm}")
                continue
            seen.add(nm)
            parts.append(annotate_fn(stext, fn_dirs.get(nm, []), f"{where0}::{nm}", notes))
            parts.append("\n")
        for nm in fn_dirs:
            if nm not in seen:
                raise Undecided(f"{where0}: method `{nm}` named by the contract was not found -- lost item")
        if only is not None:
            for nm in only:
                if nm not in seen:
                    raise Undecided(f"{where0}: method `{nm}` named by @@only was not found -- lost item")
        parts.append("}\n")
        out = "".join(parts)
    else:
        if toplevel_dirs or fn_dirs:
            raise Undecided(f"{where0}: fn directives on a non-fn item")
        out = item_src
    for s in substs:
        m = re.match(r'^"(.*)"\s*->\s*"(.*)"$', s["arg"])
        if not m:
            raise Undecided(f"{s['file']}:{s['line']}: @@subst \"from\" -> \"to\"")
        frm, to = m.group(1), m.group(2)
        if out.count(frm) < 1:
            raise Undecided(f"{where0}: @@subst text {frm!r} not found -- lost anchor")
        report["rewrites"].append({"rule": "D2", "where": where0, "from": frm, "to": to, "count": out.count(frm)})
        out = out.replace(frm, to)
    return f"// ---- {where0} (line {line}) ----\n" + keep_attrs + out + "\n"

def main():
    if len(sys.argv) < 4:
        print(__doc__); sys.exit(2)
    spec, repo, outp = sys.argv[1:4]
    rep_path = sys.argv[4] if len(sys.argv) > 4 else None
    report = {"contract": spec, "functions": [], "rewrites": [], "dropped_members": [], "drops_legend": DROPS}
    try:
        ds = parse_vspec(spec)
        out = []
        i = 0
        while i < len(ds):
            d = ds[i]
            if d["name"] == "raw":
                out.append("// ==== ghost/prelude text begin ====\n" + d["text"] + "// ==== ghost/prelude text end ====\n"); i += 1
            elif d["name"] == "include":
                inc = os.path.join(os.path.dirname(spec), d["arg"])
                out.append("// ==== ghost/prelude text begin ====\n" + open(inc).read() + "// ==== ghost/prelude text end ====\n"); i += 1
            elif d["name"] == "take":
                j = i + 1
                while j < len(ds) and ds[j]["name"] not in ("take", "raw", "include"):
                    j += 1
                out.append(process_take(repo, d, ds[i+1:j], report))
                i = j
            else:
                raise Undecided(f"{d['file']}:{d['line']}: unexpected directive @@{d['name']}")
        text = "".join(out)
        if FMT_DECLS:
            if "// @@FMT-DECLS@@" not in text:
                raise Undecided("R9 was applied but the contract has no `// @@FMT-DECLS@@` line")
            text = text.replace("// @@FMT-DECLS@@", "".join(FMT_DECLS[k] for k in sorted(FMT_DECLS)), 1)
        with open(outp, "w") as f:
            f.write(text)
        if rep_path:
            with open(rep_path, "w") as f:
                json.dump(report, f, indent=1)
    except (Undecided, LexError) as e:
        print(f"EXTRACT-UNDECIDED: {e}")
        if rep_path:
            report["undecided"] = str(e)
            with open(rep_path, "w") as f:
                json.dump(report, f, indent=1)
        sys.exit(2)

if __name__ == "__main__":
    main()
