#!/usr/bin/env python3
"""Generate MANIFEST.json from tools/props.py (keeps the manifest and the driver in step)."""
import os, sys, json
VERIF = os.path.dirname(os.path.dirname(os.path.abspath(__file__)))
sys.path.insert(0, os.path.join(VERIF, "tools"))
import props as P

ALL = [f"C{i:02d}" for i in range(1, 21)]
BASELINE = "cd /repo && cargo test --workspace --no-fail-fast --offline"

def main():
    checks = []
    for pid in ALL:
        if pid not in P.PROPS:
            continue
        s = P.PROPS[pid]
        c = {
            "property_id": pid,
            "quick_cmd": f"./check {pid} --tier quick",
            "thorough_cmd": f"./check {pid} --tier thorough",
            "evidence_file": f"/verif/evidence/{pid}.json",
            "replay_cmd_template": f"./check {pid} --replay {{path}}",
            "engine": "+".join(sorted({u["kind"] for u in s["units"]})),
            "level_claimed": {"category": s["level"], "text": s["text"], "design_ref": s.get("design_ref", "DESIGN.md")},
            "level_note": s["level_note"],
            "technique": s["technique"],
        }
        checks.append(c)
    na = [{"property_id": k, "reason": v} for k, v in sorted(P.NOT_APPLICABLE.items())]
    for pid in ALL:
        if pid not in P.PROPS and pid not in P.NOT_APPLICABLE:
            na.append({"property_id": pid, "reason": "not claimed yet: machinery for this property is not built at this commit"})
    hooks = getattr(P, "HOOKS", None) or {
        "guard": "deserr_verif",
        "enable": "none needed: no hook is compiled into /repo; checks use the public API (path dependency) and text extraction",
        "baseline_off_cmd": BASELINE,
        "source_commits": [],
        "add_only": True,
    }
    m = {
        "version": 1,
        "setup_cmd": "./setup.sh",
        "hooks": hooks,
        "engines": [
            {"name": "verus", "path": "/verif/tools/verus_unit.py", "serves_properties": sorted(p for p, s in P.PROPS.items() if any(u["kind"] == "verus" for u in s["units"])), "kind_free_text": "deductive verifier (SMT); functions extracted mechanically from /repo on every run by tools/extract.py and annotated from contracts/*.vspec"},
            {"name": "kani", "path": "/verif/kani", "serves_properties": sorted(p for p, s in P.PROPS.items() if any(u["kind"] == "kani" for u in s["units"])), "kind_free_text": "Kani/CBMC on the real compiled crate (path dependency on /repo); loop-free full-domain harnesses are complete, the others are bounded stand-ins"},
        ],
        "checks": checks,
        "not_applicable": sorted(na, key=lambda x: x["property_id"]),
        "notes": "Contract-based deductive verification. exit 0 = all obligations discharged; exit 1 + VIOLATION line = a labelled obligation failed; exit 2 = undecided (lost anchor / tool limit), never an alarm. See DESIGN.md.",
    }
    with open(os.path.join(VERIF, "MANIFEST.json"), "w") as f:
        json.dump(m, f, indent=1)
    try:
        import jsonschema
        jsonschema.validate(m, json.load(open("/root/.vp/MANIFEST.schema.json")))
        print("MANIFEST.json valid;", len(checks), "checks,", len(na), "not_applicable")
    except ImportError:
        print("jsonschema not importable; manifest written unvalidated")

if __name__ == "__main__":
    main()
