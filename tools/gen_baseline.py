#!/usr/bin/env python3
"""Record the labelled obligations that verify on the unchanged tree (contracts/baseline_obligations.json).
A later run in which one of them is missing from the generated file is 'undecided' (lost obligation), not OK."""
import os, sys, json
VERIF = os.path.dirname(os.path.dirname(os.path.abspath(__file__)))
sys.path.insert(0, os.path.join(VERIF, "tools"))
import verus_unit
units = sorted(f[:-6] for f in os.listdir(os.path.join(VERIF, "contracts")) if f.endswith(".vspec")) + ["derive"]   # `derive`: generated contract (tools/derive_unit.py)
out = {}
for u in units:
    r = verus_unit.run_unit(u)
    if r.status != "ok":
        print(f"unit {u}: {r.status} {r.reason[:300]} -- baseline NOT updated for it")
        continue
    out[u] = {l: sorted(ps) for l, ps in sorted(r.labels_present.items())}
    print(f"unit {u}: {r.verified} functions verified, {len(out[u])} labelled obligations")
path = os.path.join(VERIF, "contracts", "baseline_obligations.json")
old = json.load(open(path)) if os.path.exists(path) else {}
old.update(out)
json.dump(old, open(path, "w"), indent=1, sort_keys=True)
