"""C16 bounded stand-in: compile a generated crate of poisoned derive inputs with the real proc-macro and attribute the
compiler diagnostics to the inputs by source line (cargo check --message-format=json)."""
import os, json, subprocess, time, hashlib, shutil, re
VERIF = os.path.dirname(os.path.dirname(os.path.abspath(__file__)))
BUILD = os.path.join(VERIF, ".build")

def run_ui_for(pid, u, repo, tier, seed):
    repo = os.path.abspath(repo)
    spec = json.load(open(os.path.join(VERIF, "ui", "cases.json")))
    h = "main" if repo == "/repo" else hashlib.sha1(repo.encode()).hexdigest()[:10]
    d = os.path.join(BUILD, f"ui-crate-{h}")
    os.makedirs(os.path.join(d, "src"), exist_ok=True)
    open(os.path.join(d, "Cargo.toml"), "w").write(f'[package]\nname = "deserr-verif-ui"\nversion = "0.1.0"\nedition = "2021"\n[dependencies]\ndeserr = {{ path = "{repo}" }}\n[workspace]\n')
    lock = os.path.join(repo, "Cargo.lock")
    if os.path.exists(lock):
        shutil.copy(lock, os.path.join(d, "Cargo.lock"))
    t0 = time.time()
    info = {"engine": "rustc+derive (ui)", "group": "derive-rejects", "unit": "derive-rejects", "bounds": f"{len(spec['cases'])} hand-written derive inputs, one rejection cause each, at container / variant / field level, within one attribute and across several",
            "cmd": "cargo check --offline --message-format=json (generated crate, real proc-macro)", "assumptions": ["sampled programs: the grammar of poisoned inputs is the list in ui/cases.json; compiler integration of the diagnostics (spans) is not checked beyond the line range"]}
    r = {"status": "ok", "obligations": 0, "discharged": 0, "violations": [], "info": info, "reason": ""}
    def build(cases):
        lines = spec["prelude"].split("\n")
        ranges = {}
        for c in cases:
            start = len(lines) + 1
            lines.append(f"mod case_{c['name']} {{ use super::*;")
            lines += c["code"].split("\n")
            lines.append("}")
            ranges[c["name"]] = (start, len(lines))
        lines.append("fn main() {}")
        open(os.path.join(d, "src", "main.rs"), "w").write("\n".join(lines) + "\n")
        e = dict(os.environ); e["CARGO_NET_OFFLINE"] = "true"; e["CARGO_TARGET_DIR"] = os.path.join(BUILD, f"ui-target-{h}")
        p = subprocess.run(["cargo", "check", "--offline", "--message-format=json", "-q"], cwd=d, env=e, capture_output=True, text=True, timeout=900)
        errs = []
        for l in p.stdout.split("\n"):
            if not l.startswith("{"): continue
            try: m = json.loads(l)
            except Exception: continue
            if m.get("reason") != "compiler-message": continue
            msg = m["message"]
            if msg.get("level") != "error": continue
            ln = [s["line_start"] for s in msg.get("spans", [])]
            errs.append({"text": msg.get("message", ""), "lines": ln})
        return p.returncode, errs, ranges, p.stderr
    accept = [c for c in spec["cases"] if c["kind"] == "accept"]
    reject = [c for c in spec["cases"] if c["kind"] == "reject"]
    rc, errs, ranges, stderr = build(accept)
    r["obligations"] += len(accept)
    if rc != 0:
        bad = set()
        for e in errs:
            for name, (a, b) in ranges.items():
                if any(a <= l <= b for l in e["lines"]): bad.add((name, e["text"]))
        if not bad:
            r["status"] = "undecided"; r["reason"] = "control crate failed to build: " + stderr[-600:]
            info["wall_s"] = round(time.time() - t0, 1)
            return r
        for name, text in sorted(bad):
            r["status"] = "violation"
            r["violations"].append({"key": f"ui:{name}:valid_input_rejected", "desc": f"valid derive input `{name}` no longer compiles: {text[:200]}",
                                    "payload": {"engine": "ui", "case": name, "failing_input": {"status": "reproduced", "program": next(c['code'] for c in accept if c['name'] == name), "diagnostic": text}}, "ce_harnesses": {}})
        r["discharged"] += len(accept) - len({n for n, _ in bad})
    else:
        r["discharged"] += len(accept)
    rc, errs, ranges, stderr = build(reject)
    r["obligations"] += len(reject)
    samples = []
    for c in reject:
        a, b = ranges[c["name"]]
        mine = [e for e in errs if any(a <= l <= b for l in e["lines"])]
        panicked = [e for e in mine if "panicked" in e["text"]]
        derive_errs = [e for e in mine if c.get("expect", "") in e["text"]]
        if panicked:
            r["status"] = "violation"
            r["violations"].append({"key": f"ui:{c['name']}:derive_panicked", "desc": f"derive panicked on `{c['name']}`", "payload": {"engine": "ui", "case": c["name"], "failing_input": {"status": "reproduced", "program": c["code"], "diagnostic": panicked[0]["text"]}}, "ce_harnesses": {}})
        elif not derive_errs:
            r["status"] = "violation"
            got = "; ".join(e["text"][:80] for e in mine) or "no diagnostic at all: the input was accepted"
            r["violations"].append({"key": f"ui:{c['name']}:not_rejected", "desc": f"derive input `{c['name']}` is not rejected by the derive with a diagnostic containing {c.get('expect','')!r} ({got})",
                                    "payload": {"engine": "ui", "case": c["name"], "expected_diagnostic_contains": c.get("expect", ""), "failing_input": {"status": "reproduced", "program": c["code"], "diagnostics_in_range": [e["text"] for e in mine]}}, "ce_harnesses": {}})
        else:
            r["discharged"] += 1
            if len(samples) < 6: samples.append({"case": c["name"], "diagnostic": derive_errs[0]["text"][:120]})
    info["samples"] = samples
    info["evaluations"] = len(spec["cases"]); info["distinct_nontrivial"] = len(reject)
    info["rule"] = "one evaluation = one derive input compiled by the real proc-macro; non-trivial = a poisoned input (must be rejected by a derive diagnostic in its own line range)"
    info["wall_s"] = round(time.time() - t0, 1)
    return r
