"""Verus unit `derive`: the *real expansion* of #[derive(Deserr)] for a catalogue of structs, under contract.

prepare(repo) does, on every run:
  1. writes a scratch crate whose lib.rs holds the catalogue items (generic field types, so that each field is
     known only through the Deserr trait contract) and depends on the repository under check by path;
  2. obtains the expansion produced by the repository's own proc-macro: `cargo +nightly rustc -- -Zunpretty=expanded`;
  3. generates a contract file (.build/derive-<h>/derive.vspec) that @@take-s each expanded impl and annotates it with
     spec functions, loop invariants and proof text generated from the declarative description in
     catalogue/structs.json.  Effective keys, the accepted list and the missing / default / skip rules in those specs
     are computed HERE from the description, by this file's own implementation of the rules of properties C07-C09
     (not by the derive).
The Verus run then goes through the ordinary extractor (rewrites R1 for-desugaring, R7 string-literal match -> if chain,
D2 `::deserr::` -> local paths).
"""
import os, json, re, subprocess, hashlib, shutil

VERIF = os.path.dirname(os.path.dirname(os.path.abspath(__file__)))
BUILD = os.path.join(VERIF, ".build")

# ---- the renaming rules, from the statement of C07 ---------------------------------------------------------------
def words_of(ident):
    """words of an identifier: split at underscores and at lower->Upper / digit boundaries (snake_case, camelCase, PascalCase)"""
    words, cur = [], ""
    for ch in ident:
        if ch == "_":
            if cur: words.append(cur); cur = ""
        elif cur and ch.isupper() and (cur[-1].islower() or cur[-1].isdigit()):
            words.append(cur); cur = ch
        else:
            cur += ch
    if cur: words.append(cur)
    return words
def camel_case(ident):
    w = words_of(ident)
    return (w[0].lower() + "".join(x[:1].upper() + x[1:].lower() for x in w[1:])) if w else ident
def effective_key(ident, rename, rename_all):
    if rename is not None: return rename
    if rename_all == "camelCase": return camel_case(ident)
    if rename_all == "lowercase": return ident.lower()
    return ident

def load_catalogue():
    return json.load(open(os.path.join(VERIF, "catalogue", "structs.json")))

def uses_fns(s):
    return bool(s.get("deny_fn") or s.get("validate") or any(f.get(k) for f in s["fields"] for k in ("try_from", "from", "map", "missing_fn")))

def fn_names(s):
    """names of the stand-in user functions of a struct with function attributes"""
    P = s["name"].lower()
    return {"try": f"{P}_conv_try", "from": f"{P}_conv_from", "deny": f"{P}_deny", "validate": f"{P}_validate", "map": lambda f: f"{P}_map_{f['ident']}", "miss": lambda f: f"{P}_miss_{f['ident']}"}

def rust_fns(s):
    """Rust definitions of the stand-in user functions (for the expansion crate only: bodies are never verified or run)"""
    if not uses_fns(s): return ""
    n = fn_names(s); out = []
    for f in s["fields"]:
        if f.get("try_from"): out.append(f"pub fn {n['try']}(_s: Src) -> Result<Tgt, Ferr> {{ unimplemented!() }}")
        if f.get("from"): out.append(f"pub fn {n['from']}(_s: Src) -> Tgt {{ unimplemented!() }}")
        if f.get("map"): out.append(f"pub fn {n['map'](f)}<T>(x: T) -> T {{ x }}")
        if f.get("missing_fn"): out.append(f"pub fn {n['miss'](f)}(_field: &str, _loc: deserr::ValuePointerRef) -> Ferr {{ unimplemented!() }}")
    if s.get("validate"): out.append(f"pub fn {n['validate']}(v: {s['name']}, _loc: deserr::ValuePointerRef) -> Result<{s['name']}, Ferr> {{ Ok(v) }}")
    if s.get("deny_fn"): out.append(f"pub fn {n['deny']}(_key: &str, _accepted: &[&str], _loc: deserr::ValuePointerRef) -> Ferr {{ unimplemented!() }}")
    return "\n".join(out) + "\n"

RUST_FN_PRELUDE = """pub struct Src(pub u64);
pub struct Tgt(pub u64);
pub struct Ferr(pub u64);
impl<E: deserr::DeserializeError> deserr::Deserr<E> for Src {
    fn deserialize_from_value<V: deserr::IntoValue>(_value: deserr::Value<V>, _location: deserr::ValuePointerRef) -> Result<Self, E> { unimplemented!() }
}
"""

def rust_item(s):
    cattrs = []
    if s.get("rename_all"): cattrs.append(f"rename_all = {s['rename_all']}")
    if s.get("deny"): cattrs.append("deny_unknown_fields")
    n = fn_names(s)
    if s.get("deny_fn"): cattrs.append(f"deny_unknown_fields = {n['deny']}")
    if s.get("validate"): cattrs.append(f"validate = {n['validate']} -> Ferr")
    if uses_fns(s): cattrs.append("where_predicate = __Deserr_E: ::deserr::MergeWithError<Ferr>")
    tps = []
    lines = []
    for f in s["fields"]:
        for t in re.findall(r"\b([A-Z])\b", f["ty"]):
            if t not in tps: tps.append(t)
        fattrs = []
        if f.get("rename") is not None: fattrs.append(f'rename = "{f["rename"]}"')
        if f.get("default"): fattrs.append("default")
        if f.get("skip"): fattrs.append("skip")
        if f.get("try_from"): fattrs.append(f"try_from(Src) = {n['try']} -> Ferr")
        if f.get("from"): fattrs.append(f"from(Src) = {n['from']}")
        if f.get("map"): fattrs.append(f"map = {n['map'](f)}")
        if f.get("missing_fn"): fattrs.append(f"missing_field_error = {n['miss'](f)}")
        lines.append(("    #[deserr(" + ", ".join(fattrs) + ")]\n" if fattrs else "") + f"    pub {f['ident']}: {f['ty']},")
    head = "#[derive(Deserr)]\n" + (f"#[deserr({', '.join(cattrs)})]\n" if cattrs else "") + "#[allow(non_snake_case)]\n"
    return head + f"pub struct {s['name']}<{', '.join(tps)}> {{\n" + "\n".join(lines) + "\n}\n", tps

def expand(repo, cat):
    repo = os.path.abspath(repo)
    h = "main" if repo == "/repo" else hashlib.sha1(repo.encode()).hexdigest()[:10]
    d = os.path.join(BUILD, f"derive-{h}")
    os.makedirs(os.path.join(d, "crate", "src"), exist_ok=True)
    open(os.path.join(d, "crate", "Cargo.toml"), "w").write(f'[package]\nname = "deserr-verif-expand"\nversion = "0.1.0"\nedition = "2021"\n[dependencies]\ndeserr = {{ path = "{repo}" }}\n[workspace]\n')
    lock = os.path.join(repo, "Cargo.lock")
    if os.path.exists(lock): shutil.copy(lock, os.path.join(d, "crate", "Cargo.lock"))
    src = "#![allow(dead_code)]\nuse deserr::Deserr;\n" + RUST_FN_PRELUDE + "".join(rust_fns(s) for s in cat["structs"]) + "\n".join(rust_item(s)[0] for s in cat["structs"]) + "\n" + "\n".join(variant_item(e) for e in cat.get("unit_enums", [])) + "\n" + "\n".join(tagged_item(e)[0] for e in cat.get("tagged_enums", []))
    open(os.path.join(d, "crate", "src", "lib.rs"), "w").write(src)
    e = dict(os.environ); e["CARGO_NET_OFFLINE"] = "true"; e["CARGO_TARGET_DIR"] = os.path.join(BUILD, f"derive-target-{h}")
    e.pop("RUSTUP_TOOLCHAIN", None)
    p = subprocess.run(["cargo", "+nightly", "rustc", "--offline", "--lib", "-q", "--", "-Zunpretty=expanded"], cwd=os.path.join(d, "crate"), env=e, capture_output=True, text=True, timeout=900)
    if p.returncode != 0 or "impl<" not in p.stdout:
        raise RuntimeError("expansion failed: " + (p.stderr[-1500:] or p.stdout[-500:]))
    out = os.path.join(d, "expanded.rs")
    open(out, "w").write(p.stdout)
    return d, out

LEMMAS = r'''
pub open spec fn @P@_trace_upto<@TPB@, E: DeserializeError, V: IntoValue>(es: Seq<(String, V)>, p: Seq<Step>, n: int) -> Seq<Ev>
    decreases n
{ if n <= 0 { Seq::empty() } else { @P@_trace_upto::<@TP@, E, V>(es, p, n - 1) + @P@_entry_part::<@TP@, E, V>(es[n - 1], p) } }
pub open spec fn @P@_entries_ok<@TPB@, E: DeserializeError, V: IntoValue>(es: Seq<(String, V)>, n: int) -> bool {
    forall|i: int| 0 <= i < n ==> @P@_entry_ok::<@TP@, E, V>(#[trigger] es[i])
}
/// index of the last of the first `n` entries whose key is the effective key of field `f` (-1: absent so far)
pub open spec fn @P@_last<V>(es: Seq<(String, V)>, n: int, f: int) -> int
    decreases n
{ if n <= 0 { -1 } else if @P@_field_of(es[n - 1].0@) == f { n - 1 } else { @P@_last(es, n - 1, f) } }
pub proof fn lemma_@P@_trace_mono<@TPB@, E: DeserializeError, V: IntoValue>(es: Seq<(String, V)>, p: Seq<Step>, i: int, n: int)
    requires 0 <= i <= n,
    ensures
        @P@_trace_upto::<@TP@, E, V>(es, p, i).len() <= @P@_trace_upto::<@TP@, E, V>(es, p, n).len(),
        @P@_trace_upto::<@TP@, E, V>(es, p, n).subrange(0, @P@_trace_upto::<@TP@, E, V>(es, p, i).len() as int) == @P@_trace_upto::<@TP@, E, V>(es, p, i),
    decreases n - i
{
    let a = @P@_trace_upto::<@TP@, E, V>(es, p, i);
    let c = @P@_trace_upto::<@TP@, E, V>(es, p, n);
    if i == n { assert(c.subrange(0, a.len() as int) =~= a); }
    else {
        lemma_@P@_trace_mono::<@TP@, E, V>(es, p, i, n - 1);
        let b = @P@_trace_upto::<@TP@, E, V>(es, p, n - 1);
        assert(c == b + @P@_entry_part::<@TP@, E, V>(es[n - 1], p));
        assert(c.subrange(0, a.len() as int) =~= b.subrange(0, a.len() as int));
    }
}
/// entry i's part sits in `full = trace_upto(n) + tail` right after the parts of entries 0..i
pub proof fn lemma_@P@_trace_part<@TPB@, E: DeserializeError, V: IntoValue>(es: Seq<(String, V)>, p: Seq<Step>, i: int, n: int, tail: Seq<Ev>)
    requires 0 <= i < n,
    ensures
        ({
            let full = @P@_trace_upto::<@TP@, E, V>(es, p, n) + tail;
            let d = @P@_trace_upto::<@TP@, E, V>(es, p, i).len() as int;
            let part = @P@_entry_part::<@TP@, E, V>(es[i], p);
            &&& @P@_trace_upto::<@TP@, E, V>(es, p, i + 1).len() == d + part.len()
            &&& d + part.len() <= full.len()
            &&& full.subrange(d, d + part.len()) == part
        })
{
    let body = @P@_trace_upto::<@TP@, E, V>(es, p, n);
    let full = body + tail;
    let a = @P@_trace_upto::<@TP@, E, V>(es, p, i);
    let a1 = @P@_trace_upto::<@TP@, E, V>(es, p, i + 1);
    let part = @P@_entry_part::<@TP@, E, V>(es[i], p);
    assert(a1 == a + part);
    lemma_@P@_trace_mono::<@TP@, E, V>(es, p, i + 1, n);
    assert(full.subrange(a.len() as int, a.len() as int + part.len() as int) =~= part) by {
        assert(body.subrange(0, a1.len() as int) == a1);
        assert forall|k: int| 0 <= k < part.len() implies full.subrange(a.len() as int, a.len() as int + part.len() as int)[k] == part[k] by {
            assert(body.subrange(0, a1.len() as int)[a.len() + k] == body[a.len() + k]);
            assert(a1[a.len() + k] == part[k]);
            assert(full[a.len() + k] == body[a.len() + k]);
        }
    }
}
'''

def type_params(fields):
    tps = []
    for f in fields:
        for t in re.findall(r"\b([A-Z])\b", f["ty"]):
            if t not in tps: tps.append(t)
    return tps

def gen_fields(P, tps, fields, rename_all, deny, loop_no, ctx_inv, ctx_ghost, full_expr_is_whole=True, fnames=None, deny_fn=False, with_fns=False):
    """specs + annotations for one set of named fields (a struct, or a struct-like enum variant).
    P: prefix of the generated spec fns; tps: type parameters of the *container*; loop_no: ordinal of the key loop;
    ctx_inv: invariant lines tying `es` (the entries iterated) and `value0` to the function's parameter;
    ctx_ghost: ghost declarations for body-start.  Returns (raw_specs, directives_text, helpers dict)."""
    TP = ", ".join(tps); TPB = ", ".join(f"{t}: Deserr<E>" for t in tps)
    ns = [f for f in fields if not f.get("skip")]
    keys = [effective_key(f["ident"], f.get("rename"), rename_all) for f in ns]
    def lit(k): return '"' + k + '"@'
    raw = []
    raw.append(f"/// which non-skipped field (declaration order) an entry key fills: exact, case-sensitive match on the effective key\npub open spec fn {P}_field_of(k: Seq<char>) -> int {{ " +
               " else ".join(f"if k == {lit(k)} {{ {i} }}" for i, k in enumerate(keys)) + (" else { -1 } }\n" if keys else "-1 }\n"))
    raw.append(f"pub open spec fn {P}_accepted() -> Seq<Seq<char>> {{ seq![{', '.join(lit(k) for k in keys)}] }}\n")
    raw.append(f"pub open spec fn {P}_unknown_report(p: Seq<Step>, k: Seq<char>) -> Ev {{ Ev::Report {{ path: p, kind: RKind::UnknownKey {{ key: k, accepted: {P}_accepted() }} }} }}\n")
    ok_arms = []; part_arms = []
    for i, f in enumerate(ns):
        T = "Src" if (f.get("try_from") or f.get("from")) else f["ty"]
        if f.get("try_from"):
            # the conversion runs on the deserialized intermediate value; its failure is handed to the field's error type (here: the
            # container's) and from there to the container's accumulator, both at the field's location
            ok_arms.append(f"if f == {i} {{ <{T} as Deserr<E>>::accepts(v) && {fnames['try']}_ok(src_val(v)) }}")
            part_arms.append(f"if f == {i} {{ if !<{T} as Deserr<E>>::accepts(v) {{ <{T} as Deserr<E>>::spec_trace(v, pk).push(Ev::Handover {{ path: pk }}) }} else if {fnames['try']}_ok(src_val(v)) {{ Seq::empty() }} else {{ seq![Ev::Handover {{ path: pk }}, Ev::Handover {{ path: pk }}] }} }}")
        else:
            ok_arms.append(f"if f == {i} {{ <{T} as Deserr<E>>::accepts(v) }}")
            part_arms.append(f"if f == {i} {{ if <{T} as Deserr<E>>::accepts(v) {{ Seq::empty() }} else {{ <{T} as Deserr<E>>::spec_trace(v, pk).push(Ev::Handover {{ path: pk }}) }} }}")
    ok_tail = "false" if (deny or deny_fn) else "true"
    part_tail = (f"seq![{P}_unknown_report(p, kv.0@)]" if deny else "seq![Ev::Handover { path: p }]" if deny_fn else "Seq::empty()")
    raw.append(f"pub open spec fn {P}_entry_ok<{TPB}{', ' if TPB else ''}E: DeserializeError, V: IntoValue>(kv: (String, V)) -> bool {{\n    let f = {P}_field_of(kv.0@); let v = kv.1.spec_into_value();\n    " +
               " else ".join(ok_arms) + (" else { " if ok_arms else "{ ") + ok_tail + " }\n}\n")
    raw.append(f"pub open spec fn {P}_entry_part<{TPB}{', ' if TPB else ''}E: DeserializeError, V: IntoValue>(kv: (String, V), p: Seq<Step>) -> Seq<Ev> {{\n    let f = {P}_field_of(kv.0@); let v = kv.1.spec_into_value(); let pk = p.push(Step::Key(kv.0@));\n    " +
               " else ".join(part_arms) + (" else { " if part_arms else "{ ") + part_tail + " }\n}\n")
    raw.append(LEMMAS.replace("@P@", P).replace("@TPB@, ", TPB + ", " if TPB else "").replace("@TP@, ", TP + ", " if TP else ""))
    req = [(i, f, keys[i]) for i, f in enumerate(ns) if not f.get("default")]
    def miss_ev(f, k): return "Ev::Handover { path: p }" if f.get("missing_fn") else f"miss_report(p, {lit(k)})"
    pieces = [f"(if upto > {i} && {P}_last(es, es.len() as int, {i}) < 0 {{ seq![{miss_ev(f, k)}] }} else {{ Seq::<Ev>::empty() }})" for i, f, k in req]
    raw.append(f"pub open spec fn {P}_missing<V>(es: Seq<(String, V)>, p: Seq<Step>, upto: int) -> Seq<Ev> {{\n    " + (" + ".join(pieces) if pieces else "Seq::<Ev>::empty()") + "\n}\n")
    nF = len(ns)
    TPX = (TP + ", ") if TP else ""
    inv = []
    for i, f in enumerate(ns):
        v = f["ident"]
        if f.get("default"):
            inv.append(f"                        !({v} is Missing), deserr_error__ is None ==> {v} is Some,   // [C08:{P}_{v}_default_never_missing]")
            # (not for a field with `map`: when the function is applied -- at the end, as the derive does today, or earlier -- is an
            # implementation choice the statement leaves open; an invariant on the intermediate state would turn a harmless refactor
            # into an alarm.  The final value of a defaulted + mapped field is decided by the bounded harnesses only.)
            if f["ty"].startswith("Option<") and not f.get("map"):
                inv.append(f"                        {P}_last(es, gi, {i}) < 0 ==> {v} is Some && {v}->Some_0 is None,   // [C08:{P}_{v}_keeps_its_default_while_its_key_is_absent]")
        else:
            inv.append(f"                        ({v} is Missing) <==> {P}_last(es, gi, {i}) < 0,   // [C07,C08:{P}_{v}_missing_iff_key_absent]")
        if f.get("try_from"):
            inv.append(f"                        deserr_error__ is None && {P}_last(es, gi, {i}) >= 0 ==> {v} is Some && {v}->Some_0 == {fnames['try']}_val(src_val(es[{P}_last(es, gi, {i})].1.spec_into_value())),   // [C07,C11:{P}_{v}_is_the_conversion_of_the_value_under_its_effective_key]")
        elif f.get("from"):
            inv.append(f"                        deserr_error__ is None && {P}_last(es, gi, {i}) >= 0 ==> {v} is Some && {v}->Some_0 == {fnames['from']}_val(src_val(es[{P}_last(es, gi, {i})].1.spec_into_value())),   // [C07,C11:{P}_{v}_is_the_conversion_of_the_value_under_its_effective_key]")
        elif f.get("map"):
            # a field with `map`: *when* the function is applied (at the end, as the derive does today, or right after parsing) is an
            # implementation choice; the contract only says the field has a value once its key was seen.  That the stored value is the
            # function applied to the value under the key is decided by the bounded call-counting harnesses (C11).
            inv.append(f"                        deserr_error__ is None && {P}_last(es, gi, {i}) >= 0 ==> {v} is Some,   // [C07:{P}_{v}_has_a_value_once_its_key_was_seen]")
        else:
            inv.append(f"                        deserr_error__ is None && {P}_last(es, gi, {i}) >= 0 ==> fs_repr::<{f['ty']}, __Deserr_E, V>({v}, es[{P}_last(es, gi, {i})].1.spec_into_value()),   // [C07:{P}_{v}_filled_from_its_effective_key]")
    for f in fields:
        if f.get("skip"):
            inv.append(f"                        {f['ident']} is Some" + (f" && {f['ident']}->Some_0 is None" if f["ty"].startswith("Option<") else "") + f",   // [C08:{P}_{f['ident']}_skipped_keeps_its_default]")
    it = f"it__{loop_no}"
    loop_inv = f'''                    invariant_except_break
                        gi + {it}.remaining().len() == es.len(),
                        {it}.remaining() == es.skip(gi),
                    invariant
                        {it}.obeys_prophetic_iter_laws(),
{ctx_inv}
                        tail == {P}_missing(es, p, {nF}),
                        full == {P}_trace_upto::<{TPX}__Deserr_E, V>(es, p, es.len() as int) + tail,
                        0 <= gi <= es.len(),
                        acc_ok(otrace(deserr_error__), ostops(deserr_error__), full, {P}_trace_upto::<{TPX}__Deserr_E, V>(es, p, gi).len() as int, p),   // [C02,C03,C04,C09{',C11' if with_fns else ''}:{P}_acc]
                        deserr_error__ is Some ==> otrace(deserr_error__).len() >= 1,   // [C01:{P}_acc_nonempty]
                        (deserr_error__ is None) <==> {P}_entries_ok::<{TPX}__Deserr_E, V>(es, gi),   // [C01,C02,C09:{P}_acc_none_iff_entries_ok]
''' + "\n".join(inv) + f'''
                    ensures
                        gi == es.len(),   // [C02,C15:{P}_every_entry_is_examined]
                    decreases es.len() - gi,
'''
    loop_start = f'''                    let ghost gi0 = gi;
                    proof {{
                        assert((deserr_key__, deserr_value__) == es[gi0]);
                        assert({it}.remaining() == es.skip(gi0 + 1)) by {{
                            assert({it}.remaining() == it0.remaining().skip(1));
                            assert(es.skip(gi0).skip(1) =~= es.skip(gi0 + 1));
                        }}
                        lemma_{P}_trace_part::<{TPX}__Deserr_E, V>(es, p, gi0, es.len() as int, tail);
                        let pc = p.push(Step::Key(es[gi0].0@));
                        assert(p.is_prefix_of(pc));
                        let d = {P}_trace_upto::<{TPX}__Deserr_E, V>(es, p, gi0).len() as int;
                        let part = {P}_entry_part::<{TPX}__Deserr_E, V>(es[gi0], p);
                        assert(part.len() == 1 ==> full[d] == part[0]) by {{ if part.len() == 1 {{ assert(full.subrange(d, d + 1)[0] == full[d]); }} }}
                        // this entry is now being examined: the bookkeeping index moves here, so that a `continue` in the body is
                        // held to the invariants of the *next* iteration
                        gi = gi + 1;
                    }}
'''
    steps = []
    steps.append(f"                    let b = body.len() as int;\n                    assert(full == body + {P}_missing(es, p, {nF}));\n                    assert({P}_missing(es, p, 0) =~= Seq::<Ev>::empty());")
    for n_, (i, f, k) in enumerate(req):
        nxt = req[n_ + 1][0] if n_ + 1 < len(req) else nF
        steps.append(f"                    assert({P}_missing(es, p, {nxt}) =~= {P}_missing(es, p, {i}) + (if {P}_last(es, es.len() as int, {i}) < 0 {{ seq![{miss_ev(f, k)}] }} else {{ Seq::<Ev>::empty() }}));")
        steps.append(f"                    assert({P}_last(es, es.len() as int, {i}) < 0 ==> tail[{P}_missing(es, p, {i}).len() as int] == {miss_ev(f, k)} && full[b + {P}_missing(es, p, {i}).len()] == {miss_ev(f, k)});")
    if req:
        steps.append(f"                    assert({P}_missing(es, p, {req[0][0]}) =~= Seq::<Ev>::empty());")
    after_loop = "                proof {\n" + "\n".join(steps) + "\n                }\n"
    ghost = ctx_ghost + f'''        let ghost tail = {P}_missing(es, p, {nF});
        let ghost body = {P}_trace_upto::<{TPX}__Deserr_E, V>(es, p, es.len() as int);
        let ghost full = body + tail;
        let ghost mut gi: int = 0;
'''
    dirs = [f"@@loop {loop_no}\n" + loop_inv, f"@@loop-head {loop_no}\n                    broadcast use group_derive;\n" + ("                    broadcast use group_fns;\n" if with_fns else "") + (f"                    broadcast use lemma_strs_view{len(keys)};\n" if deny_fn and 1 <= len(keys) <= 6 else "") + f"                    let ghost it0 = {it};\n",
            f"@@loop-start {loop_no}\n" + loop_start, f"@@after-loop {loop_no}\n" + after_loop]
    for f in ns:
        if f.get("try_from"):
            common = f"""let pk_ = p.push(Step::Key(deserr_key__@));
                                                            let h_ = Ev::Handover {{ path: pk_ }};
                                                            let d_ = {P}_trace_upto::<{TPX}__Deserr_E, V>(es, p, gi0).len() as int;
                                                            assert(p.is_prefix_of(pk_));
                                                            assert({P}_entry_part::<{TPX}__Deserr_E, V>(es[gi0], p) =~= seq![h_].push(h_));
                                                            lemma_{P}_trace_part::<{TPX}__Deserr_E, V>(es, p, gi0, es.len() as int, tail);
                                                            assert(d_ + 2 <= full.len() && full.subrange(d_, d_ + 2) == seq![h_].push(h_));"""
            dirs.append(f"""@@at after "let tmp_deserr_error__ ="
                                                        proof {{
                                                            {common}
                                                            lemma_foreign_first(pk_, false);
                                                            assert(post_err(trace(tmp_deserr_error__), stops(tmp_deserr_error__), seq![h_], pk_));
                                                        }}
""")
            dirs.append(f"""@@at before "return ::std::result::Result::Err(::deserr::take_cf_content("
                                                                    proof {{
                                                                        {common}
                                                                        lemma_foreign_first(pk_, true);
                                                                        assert(post_err(trace(e), stops(e), seq![h_], pk_));
                                                                        assert(stops(e)[0]);
                                                                        assert(!nostop(stops(e)));
                                                                    }}
""")
    order = [f["ident"] for f in ns]
    return {"raw": "".join(raw), "dirs": dirs, "ghost": ghost, "keys": keys, "ns": ns, "req": req, "nF": nF, "TP": TP, "TPX": TPX, "order": order}

def gen_struct(s, expanded_path):
    """-> (raw prelude text for this struct, vspec take block)"""
    name = s["name"]; P = name.lower()
    _, tps = rust_item(s)
    TP = ", ".join(tps)
    deny = bool(s.get("deny"))
    ctx_inv = "                        value0 == deserr_value__, value0 is Map, es == value0->Map_0.entries(), p == deserr_location__.path(),"
    ctx_ghost = '''        let ghost value0 = deserr_value__;
        let ghost es = value0->Map_0.entries();
        let ghost p = deserr_location__.path();
'''
    fn = fn_names(s)
    g = gen_fields(P, tps, s["fields"], s.get("rename_all"), deny, 1, ctx_inv, ctx_ghost, fnames=fn, deny_fn=bool(s.get("deny_fn")), with_fns=uses_fns(s))
    keys, ns, req, nF, TPX = g["keys"], g["ns"], g["req"], g["nF"], g["TPX"]
    raw = [f"// ==== derived struct {name}: effective keys {keys} (computed from the description by tools/derive_unit.py), deny_unknown_fields = {deny}\n",
           f"pub struct {name}<{TP}> {{ " + " ".join(f"pub {f['ident']}: {f['ty']}," for f in s["fields"]) + " }\n", g["raw"]]
    req_present = "".join(f" && {P}_last(es, es.len() as int, {i}) >= 0" for i, f, k in req)
    def repr_clause(i, f):
        last = f"{P}_last(es, es.len() as int, {i})"; v = f"es[{last}].1.spec_into_value()"
        if f.get("try_from"): return f" && ({last} >= 0 ==> self.{f['ident']} == {fn['try']}_val(src_val({v})))"
        if f.get("from"): return f" && ({last} >= 0 ==> self.{f['ident']} == {fn['from']}_val(src_val({v})))"
        if f.get("map"): return ""   # see gen_fields: the value of a mapped field is decided by the bounded harnesses
        dflt = f" && ({last} < 0 ==> self.{f['ident']} is None)" if (f.get("default") and f["ty"].startswith("Option<") and not f.get("map")) else ""
        return f" && ({last} >= 0 ==> self.{f['ident']}.represents({v}))" + dflt
    repr_clauses = "".join(repr_clause(i, f) for i, f in enumerate(ns)) + "".join(f" && self.{f['ident']} is None" for f in s["fields"] if f.get("skip") and f["ty"].startswith("Option<"))
    # contracts of the stand-in user functions (assumed: they are the user's code; what is *checked* is every call site's precondition)
    fdecl = []
    lit = lambda k: '"' + k + '"@'
    for i, f in enumerate(ns):
        if f.get("try_from"):
            fdecl.append(f"""pub uninterp spec fn {fn['try']}_ok(s: Src) -> bool;
pub uninterp spec fn {fn['try']}_val(s: Src) -> Tgt;
// ASSUME:user-fn a pure function of its argument; it may only be handed a value that was successfully deserialized (checked at the call site)
#[verifier::external_body]
pub fn {fn['try']}(s: Src) -> (r: Result<Tgt, Ferr>)
    requires deserialized(s),   // [C11:{P}_conversion_function_only_receives_a_deserialized_value]
    ensures (r is Ok) == {fn['try']}_ok(s), r is Ok ==> r->Ok_0 == {fn['try']}_val(s),
{{ unimplemented!() }}
""")
        if f.get("from"):
            fdecl.append(f"""pub uninterp spec fn {fn['from']}_val(s: Src) -> Tgt;
// ASSUME:user-fn a pure function of its argument; it may only be handed a value that was successfully deserialized (checked at the call site)
#[verifier::external_body]
pub fn {fn['from']}(s: Src) -> (r: Tgt)
    requires deserialized(s),   // [C11:{P}_conversion_function_only_receives_a_deserialized_value]
    ensures r == {fn['from']}_val(s),
{{ unimplemented!() }}
""")
        if f.get("map"):
            fdecl.append(f"""pub uninterp spec fn {fn['map'](f)}_val<T>(x: T) -> T;
// ASSUME:user-fn a pure function of its argument
#[verifier::external_body]
pub fn {fn['map'](f)}<T>(x: T) -> (r: T)
    ensures r == {fn['map'](f)}_val(x),
{{ unimplemented!() }}
""")
        if f.get("missing_fn"):
            fdecl.append(f"""// ASSUME:user-fn returns its own error value; it must be given the field's effective key (checked at the call site)
#[verifier::external_body]
pub fn {fn['miss'](f)}(field: &str, loc: ValuePointerRef) -> (r: Ferr)
    requires field@ == {lit(keys[i])},   // [C07,C08:{P}_missing_field_function_receives_the_effective_key]
{{ unimplemented!() }}
""")
    if s.get("deny_fn"):
        fdecl.append(f"""// ASSUME:user-fn returns its own error value; it must be given the exact accepted list (checked at the call site)
#[verifier::external_body]
pub fn {fn['deny']}(key: &str, accepted: &[&str], loc: ValuePointerRef) -> (r: Ferr)
    requires strs_view(accepted@) == {P}_accepted(), {P}_field_of(key@) < 0,   // [C07,C09:{P}_unknown_key_function_receives_the_key_and_the_exact_accepted_list]
{{ unimplemented!() }}
""")
    if s.get("validate"):
        if tps or any(f.get("default") or f.get("skip") or f.get("map") for f in s["fields"]):
            raise RuntimeError("catalogue: `validate` is supported for structs whose fields are all required and deterministic (Src / from / try_from)")
        def val_expr(i, f):
            v = f"src_val(es[{P}_last(es, es.len() as int, {i})].1.spec_into_value())"
            return f"{fn['try']}_val({v})" if f.get("try_from") else f"{fn['from']}_val({v})" if f.get("from") else v
        fdecl.append(f"""pub uninterp spec fn {fn['validate']}_ok(s: {name}) -> bool;
pub uninterp spec fn {fn['validate']}_val(s: {name}) -> {name};
// ASSUME:user-fn a pure function of the value it is given
#[verifier::external_body]
pub fn {fn['validate']}(s: {name}, loc: ValuePointerRef) -> (r: Result<{name}, Ferr>)
    ensures (r is Ok) == {fn['validate']}_ok(s), r is Ok ==> r->Ok_0 == {fn['validate']}_val(s),
{{ unimplemented!() }}
/// the value built from the entries when every field is fine
pub open spec fn {P}_value<V: IntoValue>(es: Seq<(String, V)>) -> {name} {{ {name} {{ {", ".join(f"{f['ident']}: {val_expr(i, f)}" for i, f in enumerate(ns))} }} }}
pub open spec fn {P}_fields_accept<V: IntoValue, E: DeserializeError>(es: Seq<(String, V)>) -> bool {{ {P}_entries_ok::<{TPX}E, V>(es, es.len() as int){req_present} }}
""")
    raw.append("".join(fdecl))
    members = f'''    /// no fault: every entry is fine (an unknown key is a fault exactly under deny_unknown_fields) and every required field is present
    open spec fn accepts<V: IntoValue>(value: Value<V>) -> bool {{
        value is Map && ({{ let es = value->Map_0.entries(); {P}_entries_ok::<{TPX}__Deserr_E, V>(es, es.len() as int){req_present} }})
    }}
    /// keep-going run: per entry in enumeration order, then one MissingField per absent required field in declaration order
    open spec fn spec_trace<V: IntoValue>(value: Value<V>, p: Seq<Step>) -> Seq<Ev> {{
        if value is Map {{ let es = value->Map_0.entries(); {P}_trace_upto::<{TPX}__Deserr_E, V>(es, p, es.len() as int) + {P}_missing(es, p, {nF}) }}
        else {{ seq![kind_report(value, p, seq![ValueKind::Map])] }}
    }}
    /// each non-skipped field is filled from the (last) entry under exactly its effective key
    open spec fn represents<V: IntoValue>(self, value: Value<V>) -> bool {{
        value is Map && ({{ let es = value->Map_0.entries(); true{repr_clauses} }})
    }}
'''
    if s.get("validate"):
        members = f'''    /// no fault in the fields, and the validation function accepts the value built from them
    open spec fn accepts<V: IntoValue>(value: Value<V>) -> bool {{
        value is Map && ({{ let es = value->Map_0.entries(); {P}_fields_accept::<V, __Deserr_E>(es) && {fn['validate']}_ok({P}_value(es)) }})
    }}
    /// keep-going run of the fields; when they are all fine and validation fails: its error handed over at the container's location
    open spec fn spec_trace<V: IntoValue>(value: Value<V>, p: Seq<Step>) -> Seq<Ev> {{
        if value is Map {{
            let es = value->Map_0.entries();
            if {P}_fields_accept::<V, __Deserr_E>(es) && !{fn['validate']}_ok({P}_value(es)) {{ seq![Ev::Handover {{ path: p }}] }}
            else {{ {P}_trace_upto::<{TPX}__Deserr_E, V>(es, p, es.len() as int) + {P}_missing(es, p, {nF}) }}
        }} else {{ seq![kind_report(value, p, seq![ValueKind::Map])] }}
    }}
    /// the result is what the validation function returns for the value built from the entries
    open spec fn represents<V: IntoValue>(self, value: Value<V>) -> bool {{
        value is Map && ({{ let es = value->Map_0.entries(); self == {fn['validate']}_val({P}_value(es)) }})
    }}
'''
    dirs = ["@@attr\n    #[verifier::rlimit(100)]\n", "@@rewrite strmatch\n"] + (["@@rewrite map_err\n"] if s.get("validate") else []) + ["@@body-start\n        broadcast use group_derive;\n" + ("        broadcast use group_fns;\n" if uses_fns(s) else "") + g["ghost"]] + g["dirs"]
    if s.get("validate"):
        dirs.append(f'''@@at after "let deserr_final__ ="
        proof {{
            assert(value0 is Map ==> {P}_fields_accept::<V, __Deserr_E>(es) && deserr_final__ == {P}_value(es));   // [C07,C11:{P}_validation_receives_the_value_built_from_the_fields]
            lemma_foreign_first(p, true); lemma_foreign_first(p, false);
        }}
''')
    order = g["order"]
    for idx in range(len(order)):
        nxt = f"if {order[idx + 1]}.is_missing()" if idx + 1 < len(order) else "if let Some(deserr_error__) = deserr_error__"
        upto = idx + 1
        dirs.append(f'@@at? before "{nxt}"\n                proof {{ assert(acc_ok(otrace(deserr_error__), ostops(deserr_error__), full, body.len() as int + {P}_missing(es, p, {upto}).len() as int, p)); assert(deserr_error__ is None ==> {P}_missing(es, p, {upto}).len() == 0); }}   // [C02,C03,C08:{P}_acc_after_missing_check_{upto}]\n')
    sel = f"for {name}<" if tps else f"for {name} where"
    take = f"@@take {expanded_path} :: Deserr<__Deserr_E> {sel}\n@@subst \"::deserr::\" -> \"\"\n@@members\n{members}@@fn deserialize_from_value\n" + "".join(dirs)
    return "".join(raw), take

def variant_item(e):
    cattrs = []
    if e.get("rename_all"): cattrs.append(f"rename_all = {e['rename_all']}")
    lines = []
    for v in e["variants"]:
        lines.append((f'    #[deserr(rename = "{v["rename"]}")]\n' if v.get("rename") is not None else "") + f"    {v['ident']},")
    return "#[derive(Deserr)]\n" + (f"#[deserr({', '.join(cattrs)})]\n" if cattrs else "") + f"pub enum {e['name']} {{\n" + "\n".join(lines) + "\n}\n"

def gen_unit_enum(e, expanded_path):
    """unit-only enum read from a string (C10)"""
    name = e["name"]; P = name.lower()
    names = [effective_key(v["ident"], v.get("rename"), e.get("rename_all")) for v in e["variants"]]
    def lit(k): return '"' + k + '"@'
    raw = []
    raw.append(f"// ==== unit enum {name}: effective variant names {names} (computed from the description by tools/derive_unit.py)\n")
    raw.append(f"pub enum {name} {{ " + " ".join(v["ident"] + "," for v in e["variants"]) + " }\n")
    raw.append(f"/// which variant (declaration order) a string selects: exact, case-sensitive match on the effective name\npub open spec fn {P}_variant_of(k: Seq<char>) -> int {{ " +
               " else ".join(f"if k == {lit(k)} {{ {i} }}" for i, k in enumerate(names)) + " else { -1 } }\n")
    raw.append(f"pub open spec fn {P}_names() -> Seq<Seq<char>> {{ seq![{', '.join(lit(k) for k in names)}] }}\n")
    repr_clauses = " && ".join(f"((self is {v['ident']}) == ({P}_variant_of(value->String_0@) == {i}))" for i, v in enumerate(e["variants"]))
    members = f'''    //@impl-labels [C04,C10:{P}_string_selects_exactly_the_named_variant_or_is_reported_with_all_names]
    open spec fn accepts<V: IntoValue>(value: Value<V>) -> bool {{ value is String && {P}_variant_of(value->String_0@) >= 0 }}
    /// a string naming no variant is reported with the full list of effective names in declaration order, at the enum's location
    open spec fn spec_trace<V: IntoValue>(value: Value<V>, p: Seq<Step>) -> Seq<Ev> {{
        if value is String {{
            if {P}_variant_of(value->String_0@) >= 0 {{ seq![] }}
            else {{ seq![Ev::Report {{ path: p, kind: RKind::UnknownValue {{ value: value->String_0@, accepted: {P}_names() }} }}] }}
        }} else {{ seq![kind_report(value, p, seq![ValueKind::String])] }}
    }}
    /// the variant chosen is the one whose effective name equals the string exactly
    open spec fn represents<V: IntoValue>(self, value: Value<V>) -> bool {{ value is String && {repr_clauses} }}
'''
    take = (f"@@take {expanded_path} :: Deserr<__Deserr_E> for {name} where\n@@subst \"::deserr::\" -> \"\"\n@@members\n{members}@@fn deserialize_from_value\n@@rewrite strmatch\n"
            f"@@body-start\n        broadcast use group_derive;\n")
    return "".join(raw), take

def tagged_item(e):
    cattrs = [f'tag = "{e["tag"]}"']
    if e.get("rename_all"): cattrs.append(f"rename_all = {e['rename_all']}")
    if e.get("deny"): cattrs.append("deny_unknown_fields")
    tps = []
    lines = []
    for v in e["variants"]:
        vattrs = []
        if v.get("rename") is not None: vattrs.append(f'rename = "{v["rename"]}"')
        if v.get("rename_all"): vattrs.append(f"rename_all = {v['rename_all']}")
        # the order in which a variant's attributes are written must not matter (they are merged one by one)
        if v.get("attr_order") == "rename_all_first": vattrs.reverse()
        if v.get("attr_order") == "two_attributes" and len(vattrs) == 2:
            head = "".join(f"    #[deserr({a})]\n" for a in reversed(vattrs))
        else:
            head = ("    #[deserr(" + ", ".join(vattrs) + ")]\n") if vattrs else ""
        if v.get("fields") is None:
            lines.append(head + f"    {v['ident']},")
        else:
            fl = []
            for f in v["fields"]:
                for t in re.findall(r"\b([A-Z])\b", f["ty"]):
                    if t not in tps: tps.append(t)
                fattrs = []
                if f.get("rename") is not None: fattrs.append(f'rename = "{f["rename"]}"')
                if f.get("default"): fattrs.append("default")
                if f.get("skip"): fattrs.append("skip")
                fl.append((f"#[deserr({', '.join(fattrs)})] " if fattrs else "") + f"{f['ident']}: {f['ty']}")
            lines.append(head + f"    {v['ident']} {{ " + ", ".join(fl) + " },")
    return ("#[derive(Deserr)]\n#[deserr(" + ", ".join(cattrs) + ")]\n#[allow(non_snake_case)]\n" + f"pub enum {e['name']}<{', '.join(tps)}> {{\n" + "\n".join(lines) + "\n}\n"), tps

def gen_tagged_enum(e, expanded_path):
    """internally tagged enum (C10): tag extraction, exact variant selection, then the selected variant's fields only"""
    name = e["name"]; P = name.lower()
    _, tps = tagged_item(e)
    TP = ", ".join(tps); TPX = (TP + ", ") if TP else ""
    tag = e["tag"]; K = '"' + tag + '"@'
    deny = bool(e.get("deny"))
    # by the statement: the container's rename_all renames the variants only; a variant's fields follow the variant's own rename_all
    vnames = [effective_key(v["ident"], v.get("rename"), e.get("rename_all")) for v in e["variants"]]
    def lit(k): return '"' + k + '"@'
    raw = [f"// ==== tagged enum {name}: tag {tag!r}, effective variant names {vnames} (computed from the description by tools/derive_unit.py)\n"]
    vdefs = []
    for v in e["variants"]:
        if v.get("fields") is None: vdefs.append(v["ident"] + ",")
        else: vdefs.append(v["ident"] + " { " + " ".join(f"{f['ident']}: {f['ty']}," for f in v["fields"]) + " },")
    raw.append(f"pub enum {name}<{TP}> {{ " + " ".join(vdefs) + " }\n")
    raw.append(f"/// which variant (declaration order) a tag string selects: exact, case-sensitive match on the effective name\npub open spec fn {P}_variant_of(k: Seq<char>) -> int {{ " +
               " else ".join(f"if k == {lit(k)} {{ {i} }}" for i, k in enumerate(vnames)) + " else { -1 } }\n")
    ctx_ghost = f'''        let ghost value0 = deserr_value__;
        let ghost es0 = value0->Map_0.entries();
        let ghost p = deserr_location__.path();
        let ghost ti = first_key_index(es0, {K});
        let ghost es = es0.remove(ti);
        let ghost tagv = es0[ti].1.spec_into_value();
        proof {{ lemma_first_key_index_bounds(es0, {K}); lemma_prefix_push(p, Step::Key({K})); }}
'''
    dirs = ["@@attr\n    #[verifier::rlimit(100)]\n", "@@rewrite strmatch\n", "@@rewrite ok_or_else\n"]
    ghosts = [ctx_ghost]
    acc_arms, trace_arms, repr_arms = [], [], []
    loop_no = 0
    body_dirs = []
    for vi, v in enumerate(e["variants"]):
        if v.get("fields") is None:
            acc_arms.append(f"if vi == {vi} {{ true }}")
            trace_arms.append(f"if vi == {vi} {{ Seq::<Ev>::empty() }}")
            repr_arms.append(f"(vi == {vi} ==> self is {v['ident']})")
            continue
        loop_no += 1
        VP = f"{P}_{v['ident'].lower()}"
        ctx_inv = (f"                        value0 == deserr_value__, value0 is Map, es0 == value0->Map_0.entries(), p == deserr_location__.path(),\n"
                   f"                        ti == first_key_index(es0, {K}), 0 <= ti < es0.len(), es == es0.remove(ti), tagv == es0[ti].1.spec_into_value(), tagv is String, {P}_variant_of(tagv->String_0@) == {vi},")
        g = gen_fields(VP, tps, v["fields"], v.get("rename_all"), deny, loop_no, ctx_inv, "")
        raw.append(f"// ---- variant {v['ident']} (selected by {vnames[vi]!r}): effective keys {g['keys']}\n" + g["raw"])
        # per-variant ghosts get unique names by living in the loop invariants through `tail`/`full`/`body`: declare per variant
        sfx = f"_{loop_no}"
        vg = g["ghost"].replace("let ghost tail", f"let ghost tail{sfx}").replace("let ghost body", f"let ghost body{sfx}").replace("let ghost full = body + tail", f"let ghost full{sfx} = body{sfx} + tail{sfx}").replace("let ghost mut gi", f"let ghost mut gi{sfx}")
        ghosts.append(vg)
        for d in g["dirs"]:
            d = re.sub(r"\btail\b", f"tail{sfx}", d); d = re.sub(r"\bfull\b", f"full{sfx}", d); d = re.sub(r"\bbody\b", f"body{sfx}", d)
            d = re.sub(r"\bgi0\b", f"gz{sfx}", d); d = re.sub(r"\bgi\b", f"gi{sfx}", d)
            body_dirs.append(d)
        req, ns, nF = g["req"], g["ns"], g["nF"]
        req_present = "".join(f" && {VP}_last(es, es.len() as int, {i}) >= 0" for i, f, k in req)
        acc_arms.append(f"if vi == {vi} {{ {VP}_entries_ok::<{TPX}__Deserr_E, V>(es, es.len() as int){req_present} }}")
        trace_arms.append(f"if vi == {vi} {{ {VP}_trace_upto::<{TPX}__Deserr_E, V>(es, p, es.len() as int) + {VP}_missing(es, p, {nF}) }}")
        pat_fields = ", ".join(f["ident"] for f in v["fields"])
        fr = "".join(f" && ({VP}_last(es, es.len() as int, {i}) >= 0 ==> {f['ident']}.represents(es[{VP}_last(es, es.len() as int, {i})].1.spec_into_value()))" for i, f in enumerate(ns))
        repr_arms.append(f"(vi == {vi} ==> (self matches {name}::{v['ident']} {{ {pat_fields} }} && (true{fr})))")
        # stepping stones between the missing checks of this variant: anchors are ambiguous across variants (same field names may recur), so only the generic after-loop block is used
    members = f'''    //@impl-labels [C04,C10:{P}_tag_selects_exactly_the_named_variant]
    open spec fn accepts<V: IntoValue>(value: Value<V>) -> bool {{
        value is Map && ({{
            let es0 = value->Map_0.entries(); let ti = first_key_index(es0, {K});
            ti >= 0 && es0[ti].1.spec_into_value() is String && ({{
                let vi = {P}_variant_of(es0[ti].1.spec_into_value()->String_0@); let es = es0.remove(ti);
                {" else ".join(acc_arms)} else {{ false }}
            }})
        }})
    }}
    /// absent tag: MissingField(tag) at the enum; non-string tag: kind error at the tag's own location; a string naming no
    /// variant: an error at the enum; otherwise the keep-going run of the selected variant's fields over the remaining entries
    open spec fn spec_trace<V: IntoValue>(value: Value<V>, p: Seq<Step>) -> Seq<Ev> {{
        if value is Map {{
            let es0 = value->Map_0.entries(); let ti = first_key_index(es0, {K});
            if ti < 0 {{ seq![miss_report(p, {K})] }}
            else if !(es0[ti].1.spec_into_value() is String) {{ seq![kind_report(es0[ti].1.spec_into_value(), p.push(Step::Key({K})), seq![ValueKind::String])] }}
            else {{
                let vi = {P}_variant_of(es0[ti].1.spec_into_value()->String_0@); let es = es0.remove(ti);
                {" else ".join(trace_arms)} else {{ seq![Ev::Report {{ path: p, kind: RKind::Unexpected }}] }}
            }}
        }} else {{ seq![kind_report(value, p, seq![ValueKind::Map])] }}
    }}
    open spec fn represents<V: IntoValue>(self, value: Value<V>) -> bool {{
        value is Map && ({{
            let es0 = value->Map_0.entries(); let ti = first_key_index(es0, {K});
            ti >= 0 && es0[ti].1.spec_into_value() is String && ({{
                let vi = {P}_variant_of(es0[ti].1.spec_into_value()->String_0@); let es = es0.remove(ti);
                {" && ".join(repr_arms)}
            }})
        }})
    }}
'''
    dirs.append("@@body-start\n        broadcast use group_derive;\n" + "".join(ghosts))
    dirs += body_dirs
    take = f"@@take {expanded_path} :: Deserr<__Deserr_E> for {name}<\n@@subst \"::deserr::\" -> \"\"\n@@members\n{members}@@fn deserialize_from_value\n" + "".join(dirs)
    return "".join(raw), take

SRC_IMPL = """// ---- the intermediate type of the conversion attributes: a child known only through the Deserr contract, with a functional `represents`
impl<E: DeserializeError> Deserr<E> for Src {
    open spec fn accepts<V: IntoValue>(value: Value<V>) -> bool { src_accepts(value) }
    open spec fn spec_trace<V: IntoValue>(value: Value<V>, p: Seq<Step>) -> Seq<Ev> { src_trace(value, p) }
    /// functional, and it carries the ghost marker "came out of a successful deserialization"
    open spec fn represents<V: IntoValue>(self, value: Value<V>) -> bool { self == src_val(value) && deserialized(self) }
    // ASSUME:child the child's contract (the ensures of the trait)
    #[verifier::external_body]
    fn deserialize_from_value<V: IntoValue>(value: Value<V>, location: ValuePointerRef) -> Result<Self, E>
    { unimplemented!() }
}
"""

HEADER_SPEC = os.path.join(VERIF, "contracts", "derive_header.vspec.in")

def prepare(repo):
    cat = load_catalogue()
    d, expanded = expand(repo, cat)
    header = open(HEADER_SPEC).read()
    raws, takes = [], []
    for s in cat["structs"]:
        r, t = gen_struct(s, expanded)
        raws.append(r); takes.append(t)
    for e in cat.get("unit_enums", []):
        r, t = gen_unit_enum(e, expanded)
        raws.append(r); takes.append(t)
    for e in cat.get("tagged_enums", []):
        r, t = gen_tagged_enum(e, expanded)
        raws.append(r); takes.append(t)
    raws.insert(0, SRC_IMPL)
    spec = header.replace("@@STRUCT-PRELUDES@@", "@@raw\n" + "\n".join(raws)).replace("@@STRUCT-TAKES@@", "\n".join(takes))
    out = os.path.join(d, "derive.vspec")
    open(out, "w").write(spec)
    return out
