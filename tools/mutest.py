#!/usr/bin/env python3
"""Apply small source mutations to a scratch copy of /repo (never /repo itself) and run checks against it.
usage: mutest.py <mutants.json> [name-filter]
mutants.json: [{"name":..., "file":"src/impls.rs", "old":..., "new":..., "nth":1, "props":["C01"], "expect":"C01"}]
"""
import sys, os, json, shutil, subprocess, re
VERIF = os.path.dirname(os.path.dirname(os.path.abspath(__file__)))
SCR = "/root/scratch/mutest"
def main():
    ms = json.load(open(sys.argv[1]))
    flt = sys.argv[2] if len(sys.argv) > 2 else None
    rows = []
    for m in ms:
        if flt and flt not in m["name"]:
            continue
        shutil.rmtree(SCR, ignore_errors=True)
        os.makedirs(SCR)
        for d in ("src", "derive", "tests", "Cargo.toml", "Cargo.lock", "README.md", "examples", "benches"):
            s = os.path.join("/repo", d)
            if os.path.isdir(s):
                shutil.copytree(s, os.path.join(SCR, d), ignore=shutil.ignore_patterns("target"))
            elif os.path.exists(s):
                shutil.copy(s, os.path.join(SCR, d))
        path = os.path.join(SCR, m["file"])
        src = open(path).read()
        nth = m.get("nth", 1)
        idx = -1
        for _ in range(nth):
            idx = src.find(m["old"], idx + 1)
            if idx < 0:
                break
        if idx < 0:
            rows.append((m["name"], "MUTATION-NOT-APPLICABLE", ""))
            continue
        src = src[:idx] + m["new"] + src[idx + len(m["old"]):]
        open(path, "w").write(src)
        res = []
        for p in m["props"]:
            r = subprocess.run([os.path.join(VERIF, "check"), p, "--repo", SCR, "--no-evidence"], capture_output=True, text=True)
            failed = "; ".join(l.strip()[8:140] for l in r.stdout.split("\n") if l.strip().startswith("failed:"))
            und = "; ".join(l.strip()[:200] for l in r.stdout.split("\n") if l.startswith("UNDECIDED"))
            res.append(f"{p}:exit{r.returncode}" + (f" [{failed}]" if failed else "") + (f" [{und}]" if und else ""))
        rows.append((m["name"], m.get("expect", ""), " | ".join(res)))
        print(f"{m['name']:32s} expect={m.get('expect',''):8s} {' | '.join(res)}", flush=True)
    shutil.rmtree(SCR, ignore_errors=True)
    # scratch build output of the harness crate for the scratch repo
    import hashlib, glob
    h = hashlib.sha1(SCR.encode()).hexdigest()[:10]
    for d in glob.glob(os.path.join(VERIF, ".build", f"kani-crate-{h}")) + glob.glob(os.path.join(VERIF, ".build", f"kani-target-{h}*")):
        shutil.rmtree(d, ignore_errors=True)
if __name__ == "__main__":
    main()
