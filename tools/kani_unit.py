"""Run a group of Kani harnesses on the real compiled crate, attribute failed checks to properties, and turn a
counterexample into a native replay against the repository under check."""
import os, re, json, subprocess, time, hashlib, shutil

VERIF = os.path.dirname(os.path.dirname(os.path.abspath(__file__)))
KDIR = os.path.join(VERIF, "kani")
BUILD = os.path.join(VERIF, ".build")
JOBS = int(os.environ.get("VERIF_JOBS", "14"))

def crate_dir(repo):
    """the harness crate with its path dependency pointing at `repo`"""
    repo = os.path.abspath(repo)
    tmpl = open(os.path.join(KDIR, "Cargo.toml.in")).read().replace("@REPO@", repo)
    if repo == "/repo":
        d = KDIR
    else:
        h = hashlib.sha1(repo.encode()).hexdigest()[:10]
        d = os.path.join(BUILD, f"kani-crate-{h}")
        os.makedirs(d, exist_ok=True)
        for name in ("src", ".cargo"):
            dst = os.path.join(d, name)
            if os.path.islink(dst) or os.path.exists(dst):
                if os.path.islink(dst): os.unlink(dst)
                else: shutil.rmtree(dst)
            os.symlink(os.path.join(KDIR, name), dst)
    p = os.path.join(d, "Cargo.toml")
    if not os.path.exists(p) or open(p).read() != tmpl:
        open(p, "w").write(tmpl)
    lock = os.path.join(repo, "Cargo.lock")
    if os.path.exists(lock) and not os.path.exists(os.path.join(d, "Cargo.lock")):
        shutil.copy(lock, os.path.join(d, "Cargo.lock"))
    return d

def env_for(repo):
    e = dict(os.environ)
    e["CARGO_NET_OFFLINE"] = "true"
    h = "main" if os.path.abspath(repo) == "/repo" else hashlib.sha1(os.path.abspath(repo).encode()).hexdigest()[:10]
    e["CARGO_TARGET_DIR"] = os.path.join(BUILD, f"kani-target-{h}")
    return e

RES_RE = re.compile(r"\*\* (\d+) of (\d+) failed(?: \((\d+) unreachable\))?")
COV_RE = re.compile(r"\*\* (\d+) of (\d+) cover properties satisfied")

def parse_terse(out):
    """-> {harness: {status, failed, total, covers_sat, covers, time, failed_checks:[desc], stub_ok}}"""
    res = {}
    cur = {}          # thread -> harness
    lines = out.split("\n")
    i = 0
    single = None
    block_thread = None
    for ln in lines:
        m = re.match(r"^(?:Thread (\d+): )?Checking harness (\S+?)\.\.\.", ln)
        if m:
            t = m.group(1) or "0"
            cur[t] = m.group(2)
            res.setdefault(m.group(2), {"status": "unknown", "failed": 0, "total": 0, "covers_sat": 0, "covers": 0, "time": 0.0, "failed_checks": [], "stub_ok": False, "unwind_fail": False})
            block_thread = t
            continue
        m = re.match(r"^Thread (\d+):\s*(.*)$", ln)
        if m:
            block_thread = m.group(1)
            rest = m.group(2)
            if "- Stub:" in rest and block_thread in cur:
                res[cur[block_thread]]["stub_ok"] = True
            continue
        if "- Stub:" in ln and block_thread in cur:
            res[cur[block_thread]]["stub_ok"] = True
        h = cur.get(block_thread or "0")
        if h is None:
            continue
        r = res[h]
        m = RES_RE.search(ln)
        if m:
            r["failed"], r["total"] = int(m.group(1)), int(m.group(2)); continue
        m = COV_RE.search(ln)
        if m:
            r["covers_sat"], r["covers"] = int(m.group(1)), int(m.group(2)); continue
        m = re.match(r"^Failed Checks: (.*)$", ln)
        if m:
            r["failed_checks"].append(m.group(1).strip()); continue
        if ln.startswith("VERIFICATION:- SUCCESSFUL"):
            r["status"] = "ok"; continue
        if ln.startswith("VERIFICATION:- FAILED"):
            r["status"] = "failed"; continue
        m = re.match(r"^Verification Time: ([0-9.]+)s", ln)
        if m:
            r["time"] = float(m.group(1)); continue
        if "unwinding assertion" in ln:
            r["unwind_fail"] = True
    return res

def run_group(filters, repo, timeout, extra=None, jobs=None):
    d = crate_dir(repo)
    cmd = ["cargo", "kani", "-Z", "stubbing"] + (extra or [])
    for f in filters:
        cmd += ["--harness", f]
    cmd += ["-j", str(jobs or JOBS), "--output-format", "terse"]
    t0 = time.time()
    # own session, so that a timeout can take the cbmc children down with cargo
    import signal
    proc = subprocess.Popen(cmd, cwd=d, env=env_for(repo), stdout=subprocess.PIPE, stderr=subprocess.STDOUT, text=True, start_new_session=True)
    try:
        out, _ = proc.communicate(timeout=timeout)
        rc = proc.returncode
    except subprocess.TimeoutExpired:
        try: os.killpg(proc.pid, signal.SIGKILL)
        except Exception: pass
        out, _ = proc.communicate()
        out = (out or "") + "\nTIMEOUT"
        rc = 124
    return " ".join(cmd), rc, out, time.time() - t0

PID_RE = re.compile(r"\b(C\d{2}(?:,C\d{2})*):([A-Za-z0-9_]+)")

def run_kani_for(pid, u, repo, tier, seed):
    """u: {kind:'kani', group, filters:[...], bounds: str|None, timeout, thorough_filters}"""
    filters = list(u["filters"])
    if tier == "thorough":
        filters += u.get("thorough_filters", [])
    timeout = u.get("timeout", 1500) * (3 if tier == "thorough" else 1)
    cmd, rc, out, wall = run_group(filters, repo, timeout, extra=u.get("extra"), jobs=u.get("jobs"))
    res = parse_terse(out)
    info = {"engine": "kani", "group": u["group"], "cmd": cmd, "wall_s": round(wall, 1), "bounds": u.get("bounds"),
            "harnesses": {}, "assumptions": list(u.get("assumptions", []))}
    r = {"status": "ok", "obligations": 0, "discharged": 0, "violations": [], "info": info, "reason": ""}
    logp = os.path.join(BUILD, f"kani-{u['group']}-{pid}.log")
    os.makedirs(BUILD, exist_ok=True)
    open(logp, "w").write(out)
    if rc == 124:
        r["status"] = "undecided"; r["reason"] = f"kani timeout after {timeout}s (log {logp})"
        return r
    if not res:
        r["status"] = "undecided"; r["reason"] = f"kani produced no harness result (compile error? log {logp}): " + out[-600:]
        return r
    samples = []
    n_ok = 0
    for h, x in sorted(res.items()):
        short = h.split("::")[-2] if h.endswith("::check") else h.split("::")[-1]
        info["harnesses"][short] = {k: x[k] for k in ("status", "failed", "total", "covers_sat", "covers", "time")}
        mine = [c for c in x["failed_checks"] if any(pid in m.group(1).split(",") for m in PID_RE.finditer(c))]
        panics = [c for c in x["failed_checks"] if not PID_RE.search(c) and "unwinding assertion" not in c]
        if pid == "C12":
            mine += panics
        r["obligations"] += x["total"]
        if x["status"] == "ok":
            n_ok += 1
            r["discharged"] += x["total"]
            if x["covers"] and x["covers_sat"] < x["covers"]:
                r["status"] = "undecided" if r["status"] == "ok" else r["status"]
                r["reason"] += f" vacuity guard: {short} satisfied only {x['covers_sat']} of {x['covers']} cover points;"
            if u.get("need_stub") and not x["stub_ok"]:
                r["status"] = "undecided" if r["status"] == "ok" else r["status"]
                r["reason"] += f" {short}: format stub was not applied;"
        elif x["status"] == "failed":
            r["discharged"] += x["total"] - (x["failed"] if (mine or not x["failed_checks"] or x["unwind_fail"]) else 0)   # failures of other properties only: this property's obligations held
            if mine:
                r["status"] = "violation"
                names = sorted({m.group(2) for c in mine for m in PID_RE.finditer(c) if pid in m.group(1).split(",")}) or ["panic_or_overflow"]
                r["violations"].append({
                    "key": f"kani:{short}:{'+'.join(names)}",
                    "desc": f"kani harness {short}: failed obligation(s) {', '.join(names)}",
                    "payload": {"engine": "kani", "harness": h, "short": short, "failed_checks": mine, "cmd": cmd, "log": logp},
                    "ce_harnesses": {},
                    "kani_harness": h,
                })
            elif x["unwind_fail"] or any("unwinding assertion" in c for c in x["failed_checks"]):
                if r["status"] == "ok":
                    r["status"] = "undecided"
                r["reason"] += f" {short}: unwinding bound too small;"
            elif not x["failed_checks"]:
                if r["status"] == "ok":
                    r["status"] = "undecided"
                r["reason"] += f" {short}: verification failed without a named check (see {logp});"
            # failures that belong to other properties only: this property's obligations in the harness held
        else:
            if r["status"] == "ok":
                r["status"] = "undecided"
            r["reason"] += f" {short}: no verdict (see {logp});"
        if len(samples) < 8:
            samples.append({"harness": short, "checks": x["total"], "failed": x["failed"], "covers": f"{x['covers_sat']}/{x['covers']}", "cbmc_s": x["time"]})
    info["samples"] = samples
    info["evaluations"] = len(res)
    info["distinct_nontrivial"] = sum(1 for x in res.values() if x["status"] == "ok" and x["total"] > 0)
    info["rule"] = "one evaluation = one Kani harness (symbolic over its whole stated input space); non-trivial = verified with >0 checks and all cover points reached"
    info["unit"] = u["group"]
    # attach counterexamples now (needed by the driver to print the VIOLATION line with a replay)
    for v in r["violations"][:2]:   # concrete playback costs about as much as the proof; the first two are enough to replay
        try:
            # fast path: the harness body is natively enumerable (derive / container bodies): find a failing input of the same obligation there
            ce = None
            short = v["payload"]["short"]
            if u.get("enumerable", True):
                x = enumerate_harness(short, repo, timeout=300, want=pid)
                if x.get("status") == "failed":
                    ce = {"status": "reproduced", "harness": short, "values": x["values"], "native_failed_obligations": x["failed"], "replay_cmd": x["replay_cmd"],
                          "source": "exhaustive native execution of the same harness body (Kani reported the obligation as failed)"}
            if ce is None:
                ce = counterexample(v["kani_harness"], repo)
        except Exception as e:
            ce = None
            v["payload"]["ce_error"] = str(e)
        if ce:
            v["payload"]["failing_input"] = ce
    return r

def counterexample(harness, repo, timeout=900):
    """re-run one harness with concrete playback; replay the values natively against `repo`; -> dict or None"""
    d = crate_dir(repo)
    cmd = ["cargo", "kani", "-Z", "stubbing", "-Z", "concrete-playback", "--concrete-playback=print", "--harness", harness, "--exact"]
    try:
        p = subprocess.run(cmd, cwd=d, env=env_for(repo), capture_output=True, text=True, timeout=timeout)
    except subprocess.TimeoutExpired:
        return None
    out = p.stdout
    # one unit test per satisfied cover and per failed check: take the ones generated for a failed check
    tests = re.split(r"Concrete playback unit test for", out)[1:]
    cands = []
    for t in tests:
        hm = re.search(r"/// Check for `([a-z_]+)`: (.*)", t)
        if not hm or hm.group(1) == "cover":
            continue
        m = re.search(r"let concrete_vals: Vec<Vec<u8>> = vec!\[(.*?)\];\s*kani::concrete_playback_run", t, flags=re.S)
        if m:
            cands.append((hm.group(2).strip(), m.group(1)))
    if not cands:
        return None
    last = None
    for what, body in cands:
        vals = []
        for vm in re.finditer(r"vec!\[([0-9, ]*)\]", body):
            vals.append([int(x) for x in vm.group(1).split(",") if x.strip()])
        short = harness.split("::")[-2] if harness.endswith("::check") else harness.split("::")[-1]
        hexes = ",".join("".join(f"{b:02x}" for b in v) for v in vals)
        rp = replay_values(short, hexes, repo)
        rp["values"] = vals
        rp["harness"] = short
        rp["kani_check"] = what
        last = rp
        if rp["status"] == "reproduced":
            return rp
    return last if last and last["status"] != "ok" else None

def replay_values(short, hexes, repo, timeout=600):
    d = crate_dir(repo)
    cmd = ["cargo", "run", "--offline", "-q", "--bin", "replay", "--", short, hexes]
    e = env_for(repo)
    e["CARGO_TARGET_DIR"] = e["CARGO_TARGET_DIR"] + "-native"
    try:
        p = subprocess.run(cmd, cwd=d, env=e, capture_output=True, text=True, timeout=timeout)
    except subprocess.TimeoutExpired:
        return {"status": "timeout", "replay_cmd": " ".join(cmd)}
    failed = re.findall(r"^REPLAY-FAILED (.*)$", p.stdout, flags=re.M)
    st = "reproduced" if failed else ("invalid" if "REPLAY-INVALID" in p.stdout else ("ok" if "REPLAY-OK" in p.stdout else "error"))
    return {"status": st, "native_failed_obligations": failed, "replay_cmd": f"cd {d} && " + " ".join(cmd), "native_output": (p.stdout + p.stderr)[-1500:]}

def native_bin(repo):
    """build (release) and return the path of the native replay binary for `repo`"""
    d = crate_dir(repo)
    e = env_for(repo)
    e["CARGO_TARGET_DIR"] = e["CARGO_TARGET_DIR"] + "-native"
    p = subprocess.run(["cargo", "build", "--offline", "--release", "-q", "--bin", "replay"], cwd=d, env=e, capture_output=True, text=True, timeout=1200)
    if p.returncode != 0:
        raise RuntimeError("native build failed: " + p.stderr[-800:])
    return os.path.join(e["CARGO_TARGET_DIR"], "release", "replay")

def enumerate_harness(short, repo, max_runs=20000000, timeout=900, want=None):
    """exhaustive native walk of the decision tree of a harness body -> (status, runs, failed obligations, values)"""
    b = native_bin(repo)
    try:
        p = subprocess.run([b, "--enumerate", short, str(max_runs)] + ([want] if want else []), capture_output=True, text=True, timeout=timeout)
    except subprocess.TimeoutExpired:
        return {"status": "timeout", "runs": 0}
    out = p.stdout
    m = re.search(r"ENUM-OK (\d+) runs", out)
    if m:
        om = re.search(r"ENUM-OTHER (\d+) runs failed obligations of other properties only, e.g. (.*) with", out)
        return {"status": "ok", "runs": int(m.group(1)), "other_property_failures": int(om.group(1)) if om else 0, "other_example": om.group(2) if om else None}
    m = re.search(r"ENUM-FAILED after (\d+) runs: (.*)", out)
    if m:
        vm = re.search(r"ENUM-VALUES (.*)", out)
        vals = [[int(x, 16)] for x in vm.group(1).split(",")] if vm and vm.group(1).strip() else []
        return {"status": "failed", "runs": int(m.group(1)), "failed": [x.strip() for x in m.group(2).split("|") if x.strip()] + (["panic in the code under test"] if "ENUM-FAILED panic" in out else []),
                "values": vals, "replay_cmd": f"{b} {short} " + ",".join(f"{v[0]:02x}" for v in vals)}
    return {"status": "error", "runs": 0, "output": (out + p.stderr)[-800:]}

def run_enum_for(pid, u, repo, tier, seed):
    """u: {kind:'enum', group, harnesses:[short...], thorough_harnesses:[...]}: bounded stand-in, exhaustive native execution"""
    hs = list(u["harnesses"]) + (u.get("thorough_harnesses", []) if tier == "thorough" else [])
    t0 = time.time()
    info = {"engine": "native-enumeration", "group": u["group"], "unit": u["group"], "harnesses": {}, "bounds": u.get("bounds"),
            "cmd": "kani/target/release/replay --enumerate <harness>", "assumptions": list(u.get("assumptions", []))}
    r = {"status": "ok", "obligations": 0, "discharged": 0, "violations": [], "info": info, "reason": ""}
    total_runs = 0
    try:
        native_bin(repo)
    except Exception as e:
        r["status"] = "undecided"; r["reason"] = str(e)[:600]
        return r
    samples = []
    for h in hs:
        x = enumerate_harness(h, repo, want=pid)
        info["harnesses"][h] = {k: x.get(k) for k in ("status", "runs", "other_property_failures")}
        r["obligations"] += 1
        if x["status"] == "ok":
            r["discharged"] += 1
            total_runs += x["runs"]
            if len(samples) < 6:
                samples.append({"harness": h, "decision_tree_leaves_executed": x["runs"]})
        elif x["status"] == "failed":
            mine = [c for c in x["failed"] if any(pid in m.group(1).split(",") for m in PID_RE.finditer(c))]
            if pid == "C12" and any("panic" in c for c in x["failed"]):
                mine.append("panic in the code under test")
            if mine:
                names = sorted({m.group(2) for c in mine for m in PID_RE.finditer(c) if pid in m.group(1).split(",")}) or ["panic"]
                r["status"] = "violation"
                r["violations"].append({"key": f"enum:{h}:{'+'.join(names)}", "desc": f"native enumeration of harness {h}: failed obligation(s) {', '.join(names)} after {x['runs']} runs",
                                        "payload": {"engine": "native-enumeration", "harness": h, "failed_checks": mine,
                                                    "failing_input": {"status": "reproduced", "harness": h, "values": x["values"], "native_failed_obligations": x["failed"], "replay_cmd": x["replay_cmd"]}},
                                        "ce_harnesses": {}})
            else:
                r["discharged"] += 1   # the failure belongs to another property
        else:
            if r["status"] == "ok": r["status"] = "undecided"
            r["reason"] += f" {h}: {x['status']} {x.get('output', '')[:200]};"
    info["wall_s"] = round(time.time() - t0, 1)
    info["evaluations"] = total_runs
    info["distinct_nontrivial"] = total_runs
    info["rule"] = "one evaluation = one complete execution of a harness body on the real code for one leaf of its decision tree (every key choice x value choice x Continue/Break answer sequence within the stated bounds); all leaves are distinct inputs"
    info["samples"] = samples
    info["exhaustive"] = True
    return r

def find_counterexample(pid, v, repo):
    """for a failed Verus obligation: search the bounded harness bodies registered for the same function for a concrete
    failing input by exhaustive native execution (the input is then replayed against the repository by construction)"""
    hs = v.get("ce_harnesses") or {}
    fn_key = (v["payload"].get("impl") or "") + "::" + (v["payload"].get("fn") or "")
    cands = []
    for pat, hl in hs.items():
        if pat in fn_key:
            cands += hl
    for h in cands:
        x = enumerate_harness(h, repo, timeout=600)
        if x["status"] == "failed":
            return {"status": "reproduced", "harness": h, "values": x["values"], "native_failed_obligations": x["failed"], "replay_cmd": x["replay_cmd"],
                    "source": "exhaustive native execution of the bounded harness body of the same function"}
    return None

def replay_native(payload, repo):
    fi = payload.get("failing_input")
    if not fi:
        print("no failing input recorded in this replay file"); return 2
    hexes = ",".join("".join(f"{b:02x}" for b in v) for v in fi["values"])
    rp = replay_values(fi["harness"], hexes, repo)
    print(json.dumps(rp, indent=1))
    return 1 if rp["status"] == "reproduced" else 0
