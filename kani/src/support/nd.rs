//! Nondeterminism source: `kani::any()` under Kani; natively a recorded list of concrete values (the replay of a
//! Kani counterexample against the real code). One entry per `any` call, in call order.
#[cfg(not(kani))]
use std::cell::{Cell, RefCell};

#[cfg(not(kani))]
thread_local! {
    static VALS: RefCell<Vec<Vec<u8>>> = RefCell::new(Vec::new());
    static POS: Cell<usize> = Cell::new(0);
    pub static EXHAUSTED: Cell<bool> = Cell::new(false);
    pub static ASSUME_FAILED: Cell<bool> = Cell::new(false);
    pub static FAILED: RefCell<Vec<String>> = RefCell::new(Vec::new());
}

#[cfg(not(kani))]
pub fn load(vals: Vec<Vec<u8>>) {
    VALS.with(|v| *v.borrow_mut() = vals);
    POS.with(|p| p.set(0));
    EXHAUSTED.with(|e| e.set(false));
    ASSUME_FAILED.with(|e| e.set(false));
    FAILED.with(|f| f.borrow_mut().clear());
}

#[cfg(not(kani))]
fn bytes(n: usize) -> [u8; 8] {
    let mut out = [0u8; 8];
    let pos = POS.with(|p| p.get());
    VALS.with(|v| {
        let v = v.borrow();
        if pos < v.len() {
            for i in 0..n.min(8).min(v[pos].len()) { out[i] = v[pos][i]; }
        } else {
            EXHAUSTED.with(|e| e.set(true));
        }
    });
    POS.with(|p| p.set(pos + 1));
    out
}

#[cfg(kani)] pub fn u8() -> u8 { kani::any() }
#[cfg(kani)] pub fn bool() -> bool { kani::any() }
#[cfg(kani)] pub fn u16() -> u16 { kani::any() }
#[cfg(kani)] pub fn u64() -> u64 { kani::any() }
#[cfg(kani)] pub fn i64() -> i64 { kani::any() }
#[cfg(kani)] pub fn f64() -> f64 { kani::any() }

#[cfg(not(kani))] pub fn u8() -> u8 { if enumerating() { return choice(1); } bytes(1)[0] }
#[cfg(not(kani))] pub fn bool() -> bool { if enumerating() { return choice(2) != 0; } bytes(1)[0] != 0 }
#[cfg(not(kani))] pub fn u16() -> u16 { let b = bytes(2); u16::from_le_bytes([b[0], b[1]]) }
#[cfg(not(kani))] pub fn u64() -> u64 { u64::from_le_bytes(bytes(8)) }
#[cfg(not(kani))] pub fn i64() -> i64 { i64::from_le_bytes(bytes(8)) }
#[cfg(not(kani))] pub fn f64() -> f64 { f64::from_bits(u64::from_le_bytes(bytes(8))) }

/// value in 0..n
#[cfg(kani)]
pub fn below(n: u8) -> u8 { let x = u8(); assume(x < n); x }
#[cfg(not(kani))]
pub fn below(n: u8) -> u8 { if enumerating() { return choice(n); } let x = u8(); assume(x < n); x }

// ---- native exhaustive enumeration of the decision tree of a harness body (a counterexample *finder* used after a
// verifier reported a failed obligation, and a development aid; it decides nothing) -------------------------
#[cfg(not(kani))]
thread_local! {
    static ENUM: Cell<bool> = Cell::new(false);
    static SCRIPT: RefCell<Vec<(u8, u8)>> = RefCell::new(Vec::new());
    static EPOS: Cell<usize> = Cell::new(0);
}
#[cfg(not(kani))]
fn enumerating() -> bool { ENUM.with(|e| e.get()) }
#[cfg(not(kani))]
fn choice(arity: u8) -> u8 {
    let pos = EPOS.with(|p| { let v = p.get(); p.set(v + 1); v });
    SCRIPT.with(|s| {
        let mut s = s.borrow_mut();
        if pos < s.len() { s[pos].1 = arity; s[pos].0.min(arity.saturating_sub(1)) } else { s.push((0, arity)); 0 }
    })
}
/// start enumeration mode with an empty script
#[cfg(not(kani))]
pub fn enum_start() { ENUM.with(|e| e.set(true)); SCRIPT.with(|s| s.borrow_mut().clear()); }
/// prepare the next run; false when the tree is exhausted
#[cfg(not(kani))]
pub fn enum_begin_run() { EPOS.with(|p| p.set(0)); ASSUME_FAILED.with(|e| e.set(false)); FAILED.with(|f| f.borrow_mut().clear()); }
#[cfg(not(kani))]
pub fn enum_advance() -> bool {
    let used = EPOS.with(|p| p.get());
    SCRIPT.with(|s| {
        let mut s = s.borrow_mut();
        s.truncate(used);
        while let Some((c, a)) = s.pop() {
            if c + 1 < a { s.push((c + 1, a)); return true; }
        }
        false
    })
}
/// the current script as replayable values (one byte per decision)
#[cfg(not(kani))]
pub fn enum_script() -> Vec<u8> { SCRIPT.with(|s| s.borrow().iter().map(|(c, _)| *c).collect()) }

/// `kani::assume` under Kani; natively a violated assumption marks the replay as "not a valid input"
#[cfg(kani)]
pub fn assume(c: bool) { kani::assume(c) }
#[cfg(not(kani))]
pub fn assume(c: bool) { if !c { ASSUME_FAILED.with(|f| f.set(true)); } }

/// a named obligation: a Kani assertion under Kani; natively the name of a failed one is recorded
#[cfg(kani)]
#[macro_export]
macro_rules! oblige { ($c:expr, $name:expr) => { assert!($c, $name) }; }
#[cfg(not(kani))]
#[macro_export]
macro_rules! oblige { ($c:expr, $name:expr) => { if !($c) { $crate::support::nd::FAILED.with(|f| f.borrow_mut().push($name.to_string())); } }; }

/// reachability witness behind an assumption (vacuity guard)
#[cfg(kani)]
#[macro_export]
macro_rules! reach { ($c:expr, $name:expr) => { kani::cover!($c, $name) }; }
#[cfg(not(kani))]
#[macro_export]
macro_rules! reach { ($c:expr, $name:expr) => { let _ = $c; }; }
