//! Second value source (not serde_json): a flat, heap-free, non-recursive arena.  Containers are (start, len)
//! ranges into a global node table, map keys index a per-harness dictionary of concrete strings, and the map
//! iterator yields entries in arena order -- so member order is under the harness's control (C15) and duplicate
//! keys are expressible (C12).
#![allow(static_mut_refs)]
use deserr::{IntoValue, Map, Sequence, Value, ValueKind};

#[derive(Clone, Copy, PartialEq, Debug)]
pub enum Node { Null, Bool(bool), Int(u64), Neg(i64), Float(f64), Str(u8), Seq(u8, u8), Map(u8, u8) }

pub const ARENA: usize = 12;
pub static mut NODES: [Node; ARENA] = [Node::Null; ARENA];
pub static mut KEYS: [u8; ARENA] = [0; ARENA];
pub static mut DICT: &'static [&'static str] = &[];

pub fn set_dict(d: &'static [&'static str]) { unsafe { DICT = d; } }
pub fn word(i: u8) -> &'static str { unsafe { DICT[i as usize] } }
pub fn node(i: u8) -> Node { unsafe { NODES[i as usize] } }
pub fn key(i: u8) -> u8 { unsafe { KEYS[i as usize] } }
pub fn put(i: u8, n: Node) { unsafe { NODES[i as usize] = n; } }
pub fn put_entry(i: u8, k: u8, n: Node) { unsafe { NODES[i as usize] = n; KEYS[i as usize] = k; } }
/// signature of a word: (length, first byte, third byte, last byte).  Dictionaries are chosen so that signatures are unique
/// (checked by `dict_ok`), which lets the recorder identify a key without a memcmp per dictionary word.
fn sig(s: &str) -> (usize, u8, u8, u8) {
    let b = s.as_bytes();
    (b.len(), if b.len() > 0 { b[0] } else { 0 }, if b.len() > 2 { b[2] } else { 0 }, if b.len() > 0 { b[b.len() - 1] } else { 0 })
}
/// dictionary index of a string (255 when it is not a dictionary word)
pub fn word_id(s: &str) -> u8 {
    let d = unsafe { DICT };
    let k = sig(s);
    let mut i = 0;
    while i < d.len() { if sig(d[i]) == k { return i as u8; } i += 1; }
    255
}
/// all signatures of the dictionary are distinct
pub fn dict_ok() -> bool {
    let d = unsafe { DICT };
    let mut i = 0;
    while i < d.len() { let mut j = i + 1; while j < d.len() { if sig(d[i]) == sig(d[j]) { return false; } j += 1; } i += 1; }
    true
}
/// the key string of dictionary word `k`, built byte by byte from a table lookup (no symbolic pointer: when `k` is
/// symbolic and all dictionary words have the same length, the string has a concrete length and symbolic bytes)
pub fn key_string(k: u8) -> String {
    let d = unsafe { DICT };
    let len = d[0].len();
    let mut same = true;
    let mut i = 1;
    while i < d.len() { if d[i].len() != len { same = false; } i += 1; }
    if !same { return d[k as usize].to_string(); }
    let mut v: Vec<u8> = Vec::with_capacity(len);
    let mut j = 0;
    while j < len {
        // table lookup: ite over the dictionary at byte position j
        let mut b = d[0].as_bytes()[j];
        let mut w = 1;
        while w < d.len() { if k as usize == w { b = d[w].as_bytes()[j]; } w += 1; }
        v.push(b);
        j += 1;
    }
    unsafe { String::from_utf8_unchecked(v) }
}

#[derive(Clone, Copy, Debug)]
pub struct KV(pub Node);
#[derive(Clone, Copy, Debug)]
pub struct KSeq { pub start: u8, pub len: u8 }
#[derive(Clone, Copy, Debug)]
pub struct KMap { pub start: u8, pub len: u8, pub removed: u8 }
pub const NOT_REMOVED: u8 = 255;

pub struct SeqIter { cur: u8, end: u8 }
impl Iterator for SeqIter {
    type Item = KV;
    fn next(&mut self) -> Option<KV> {
        if self.cur < self.end { let n = node(self.cur); self.cur += 1; Some(KV(n)) } else { None }
    }
}
pub struct MapIter { cur: u8, end: u8, removed: u8 }
impl Iterator for MapIter {
    type Item = (String, KV);
    fn next(&mut self) -> Option<(String, KV)> {
        while self.cur < self.end {
            let i = self.cur;
            self.cur += 1;
            if i == self.removed { continue; }
            return Some((key_string(key(i)), KV(node(i))));
        }
        None
    }
}
impl Sequence for KSeq {
    type Value = KV;
    type Iter = SeqIter;
    fn len(&self) -> usize { self.len as usize }
    fn into_iter(self) -> SeqIter { SeqIter { cur: self.start, end: self.start + self.len } }
}
impl Map for KMap {
    type Value = KV;
    type Iter = MapIter;
    fn len(&self) -> usize { self.len as usize - if self.removed != NOT_REMOVED { 1 } else { 0 } }
    fn remove(&mut self, k: &str) -> Option<KV> {
        // every key of the arena is a dictionary word and words are identified by their signature (`dict_ok`), so key
        // equality is equality of dictionary indices -- an integer comparison instead of a memcmp per entry
        let id = word_id(k);
        let mut i = self.start;
        while i < self.start + self.len {
            if i != self.removed && id != 255 && key(i) == id { self.removed = i; return Some(KV(node(i))); }
            i += 1;
        }
        None
    }
    fn into_iter(self) -> MapIter { MapIter { cur: self.start, end: self.start + self.len, removed: self.removed } }
}
pub fn kind_of(n: Node) -> ValueKind {
    match n {
        Node::Null => ValueKind::Null, Node::Bool(_) => ValueKind::Boolean, Node::Int(_) => ValueKind::Integer,
        Node::Neg(_) => ValueKind::NegativeInteger, Node::Float(_) => ValueKind::Float, Node::Str(_) => ValueKind::String,
        Node::Seq(..) => ValueKind::Sequence, Node::Map(..) => ValueKind::Map,
    }
}
pub fn to_value(n: Node) -> Value<KV> {
    match n {
        Node::Null => Value::Null, Node::Bool(b) => Value::Boolean(b), Node::Int(x) => Value::Integer(x),
        Node::Neg(x) => Value::NegativeInteger(x), Node::Float(x) => Value::Float(x), Node::Str(k) => Value::String(key_string(k)),
        Node::Seq(s, l) => Value::Sequence(KSeq { start: s, len: l }),
        Node::Map(s, l) => Value::Map(KMap { start: s, len: l, removed: NOT_REMOVED }),
    }
}
impl IntoValue for KV {
    type Sequence = KSeq;
    type Map = KMap;
    fn kind(&self) -> ValueKind { kind_of(self.0) }
    fn into_value(self) -> Value<Self> { to_value(self.0) }
}
pub fn kind_bit(k: ValueKind) -> u32 {
    match k {
        ValueKind::Null => 1, ValueKind::Boolean => 2, ValueKind::Integer => 4, ValueKind::NegativeInteger => 8,
        ValueKind::Float => 16, ValueKind::String => 32, ValueKind::Sequence => 64, ValueKind::Map => 128,
    }
}
pub fn kind_idx(k: ValueKind) -> u32 {
    match k {
        ValueKind::Null => 0, ValueKind::Boolean => 1, ValueKind::Integer => 2, ValueKind::NegativeInteger => 3,
        ValueKind::Float => 4, ValueKind::String => 5, ValueKind::Sequence => 6, ValueKind::Map => 7,
    }
}
