//! `Leaf`: a field / element type whose own Deserr impl *is* the trait contract of DESIGN §3.3 made executable:
//! it accepts exactly `Integer(x)` (remembering x, so a test can see which payload entry filled which field) and
//! otherwise makes exactly one report, at the location it was given, and fails.  Derived structs and enums of
//! the catalogue use `Leaf` fields wherever the field's own type is not what the property is about, so the
//! struct-level logic is checked against the child's contract rather than against `u8`/`Vec<u8>` bodies.
#![allow(static_mut_refs)]
use super::arena::Node;
use deserr::{take_cf_content, DeserializeError, Deserr, ErrorKind, IntoValue, Value, ValuePointerRef};

#[derive(Clone, Copy, PartialEq, Eq, Debug, Default)]
pub struct Leaf(pub u64);
/// number of times a Leaf was asked to deserialize
pub static mut LEAF_CALLS: u32 = 0;
pub fn leaf_calls() -> u32 { unsafe { LEAF_CALLS } }
pub fn reset() { unsafe { LEAF_CALLS = 0; } }
pub fn leaf_accepts(n: Node) -> bool { matches!(n, Node::Int(_)) }

impl<E: DeserializeError> Deserr<E> for Leaf {
    fn deserialize_from_value<V: IntoValue>(value: Value<V>, location: ValuePointerRef) -> Result<Self, E> {
        unsafe { LEAF_CALLS += 1; }
        match value {
            Value::Integer(x) => Ok(Leaf(x)),
            _ => Err(take_cf_content(E::error::<V>(None, ErrorKind::Unexpected { msg: String::new() }, location))),
        }
    }
}
