pub mod nd;
pub mod arena;
pub mod rec;
