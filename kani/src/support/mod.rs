pub mod nd;
pub mod arena;
pub mod rec;
pub mod leaf;
pub mod reference;
