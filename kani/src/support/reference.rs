//! Reference interpreter: the keep-going run (what an always-Continue error type is handed, in order) and the
//! value, for derived structs / enums described declaratively.  Written from the property statements (C02,
//! C07-C11), not from the derive: effective keys, deny lists and variant names arrive here already computed by
//! the generator's own implementation of the renaming rules (tools/gen_catalogue.py).
#![allow(static_mut_refs)]
use super::arena::{self, Node};
use super::leaf::leaf_accepts;
use super::rec::*;

pub const MAXF: usize = 6;

#[derive(Clone, Copy, PartialEq, Eq, Debug)]
pub enum FTy {
    /// `Leaf`
    Leaf,
    /// `Option<Leaf>`
    OptLeaf,
    /// a nested derived struct
    Struct(&'static StructDesc),
    /// `Vec<Leaf>` (real std impl)
    VecLeaf,
}
#[derive(Clone, Copy, PartialEq, Eq, Debug)]
pub enum Presence { Required, /** `default` / `default = expr`: the given view when absent */ Default(u64), Skipped(u64) }
#[derive(Clone, Copy, PartialEq, Eq, Debug)]
pub enum Conv { None, /** `from(Leaf) = f` : counter id */ From(u8), /** `try_from(Leaf) = f -> Foreign`: fails iff the Leaf is odd */ TryFrom(u8) }
#[derive(Clone, Copy, PartialEq, Eq, Debug)]
pub struct FieldDesc {
    /// dictionary index of the effective key (unused for skipped fields)
    pub key: u8,
    pub presence: Presence,
    pub ty: FTy,
    /// `missing_field_error = f`: the report is a K_FOREIGN with payload 1000 + key
    pub missing_fn: bool,
    pub conv: Conv,
    /// `map = f` (adds 1000 to the view; counter id)
    pub map: Option<u8>,
}
#[derive(Clone, Copy, PartialEq, Eq, Debug)]
pub enum Deny { No, Default, /** `deny_unknown_fields = f`: K_FOREIGN with payload 2000 + key id */ Func }
#[derive(Clone, Copy, PartialEq, Eq, Debug)]
pub struct StructDesc {
    /// in declaration order
    pub fields: &'static [FieldDesc],
    pub deny: Deny,
    /// `validate = f -> Foreign`: fails iff the sum of the field views is divisible by 7; counter id
    pub validate: Option<u8>,
}
#[derive(Clone, Copy, PartialEq, Eq, Debug)]
pub enum VariantDesc { Unit, Named(&'static StructDesc) }
#[derive(Clone, Copy, PartialEq, Eq, Debug)]
pub struct EnumDesc {
    /// dictionary index of the tag key
    pub tag: u8,
    /// (dictionary index of the effective variant name, content), in declaration order
    pub variants: &'static [(u8, VariantDesc)],
}

/// expected number of calls of each user function (by counter id)
pub const NCOUNTERS: usize = 8;
#[derive(Clone, Copy, Debug)]
pub struct Expect {
    pub log: Rec,
    /// view of the value (meaningful when log.n == 0): one slot per field in declaration order; for enums slot 0
    /// is the variant index + 1 and the fields follow
    pub view: [u64; MAXF],
    pub counters: [u8; NCOUNTERS],
}
impl Expect { pub const EMPTY: Expect = Expect { log: Rec::EMPTY, view: [0; MAXF], counters: [0; NCOUNTERS] }; }

pub fn leaf_view(x: u64) -> u64 { x + 1 }
pub fn report(kind: u8, path: Path, a: u32, b: u32) -> Evt { Evt::new(kind, path, false, a, b) }
pub fn handover(path: Path) -> Evt { Evt::new(K_HANDOVER, path, false, 0, 0) }
pub fn kind_report(path: Path, actual: Node, accepted_mask: u32, n: u32) -> Evt {
    report(K_KIND, path, accepted_mask | (arena::kind_idx(arena::kind_of(actual)) << 8), n)
}

/// keep-going run of a `Leaf` at `p`: (accepted?, view)
fn leaf_spec(n: Node, p: Path, out: &mut Rec) -> Option<u64> {
    match n { Node::Int(x) => Some(leaf_view(x)), _ => { out.push(report(K_UNEXPECTED, p, 0, 0)); None } }
}
fn ty_spec(ty: FTy, n: Node, p: Path, ex: &mut Expect) -> Option<u64> {
    match ty {
        FTy::Leaf => leaf_spec(n, p, &mut ex.log),
        FTy::OptLeaf => match n { Node::Null => Some(0), _ => leaf_spec(n, p, &mut ex.log) },
        FTy::VecLeaf => match n {
            Node::Seq(s, l) => {
                let mut ok = true; let mut sum = 0u64; let mut i = 0u8;
                while i < l {
                    let before = ex.log.n;
                    match leaf_spec(arena::node(s + i), p.idx(i as usize), &mut ex.log) { Some(v) => { sum = sum * 10 + v; } None => { ok = false; } }
                    if ex.log.n != before { ex.log.push(handover(p.idx(i as usize))); }
                    i += 1;
                }
                if ok { Some(100 + sum) } else { None }
            }
            other => { ex.log.push(kind_report(p, other, 64, 1)); None }
        },
        FTy::Struct(d) => {
            let mut sub = Expect::EMPTY; sub.counters = ex.counters;
            let r = struct_spec(d, n, p, &mut sub);
            ex.log.append(&sub.log); ex.counters = sub.counters;
            if r { let mut s = 0u64; let mut i = 0; while i < MAXF { s = s * 3 + sub.view[i]; i += 1; } Some(s) } else { None }
        }
    }
}

/// keep-going run of a derived struct (or the named fields of a variant) over the map node `n` located at `p`.
/// `skip_entry`: arena index of an entry already consumed (the enum tag), or 255.
pub fn fields_spec(d: &StructDesc, start: u8, len: u8, skip_entry: u8, p: Path, ex: &mut Expect) -> bool {
    // per field: 0 = missing, 1 = present and good, 2 = present but invalid
    let mut state = [0u8; MAXF];
    let mut val = [0u64; MAXF];
    let nf = d.fields.len();
    let mut f = 0;
    while f < nf {
        match d.fields[f].presence { Presence::Default(v) | Presence::Skipped(v) => { state[f] = 1; val[f] = v; } Presence::Required => {} }
        f += 1;
    }
    // accepted list: effective keys of the non-skipped fields, in declaration order
    let mut acc = [0u8; MAXF]; let mut nacc = 0;
    f = 0;
    while f < nf { if !matches!(d.fields[f].presence, Presence::Skipped(_)) { acc[nacc] = d.fields[f].key; nacc += 1; } f += 1; }
    let mut i = start;
    while i < start + len {
        if i != skip_entry {
            let k = arena::key(i);
            // the field index stays concrete inside the branch (cheap for the model checker): first non-skipped field with this key
            let mut matched = false;
            f = 0;
            while f < nf {
                if !matched && !matches!(d.fields[f].presence, Presence::Skipped(_)) && d.fields[f].key == k {
                    matched = true;
                    let hit = f;
                    let fd = d.fields[hit];
                    let pk = p.key(k);
                    let before = ex.log.n;
                    let r = ty_spec(fd.ty, arena::node(i), pk, ex);
                    match r {
                        Some(v) => {
                            // conversion functions only ever see successfully deserialized values, once
                            match fd.conv {
                                Conv::None => { state[hit] = 1; val[hit] = v; }
                                Conv::From(c) => { ex.counters[c as usize] += 1; state[hit] = 1; val[hit] = v + 500; }
                                Conv::TryFrom(c) => {
                                    ex.counters[c as usize] += 1;
                                    if v % 2 == 1 { state[hit] = 1; val[hit] = v + 700; }
                                    else {
                                        // the function's error is handed to the (field's, then container's) error type at the field's location
                                        ex.log.push(report(K_FOREIGN, pk, 3000 + v as u32, 0));
                                        ex.log.push(handover(pk));
                                        state[hit] = 2;
                                    }
                                }
                            }
                        }
                        None => { if ex.log.n != before { ex.log.push(handover(pk)); } state[hit] = 2; }
                    }
                }
                f += 1;
            }
            if matched {
            } else {
                match d.deny {
                    Deny::No => {}
                    Deny::Default => { ex.log.push(report(K_UNKNOWN_KEY, p, k as u32, ids_hash(&acc[..nacc]))); }
                    Deny::Func => { ex.counters[4] += 1; ex.log.push(report(K_FOREIGN, p, 2000 + k as u32, (ids_hash(&acc[..nacc]).wrapping_add(7919u32.wrapping_mul(pathsig(&p)))) & 0xfff)); }
                }
            }
        }
        i += 1;
    }
    // missing pass: non-skipped fields first in declaration order (skipped ones are never missing)
    f = 0;
    while f < nf {
        if state[f] == 0 {
            let fd = d.fields[f];
            if fd.missing_fn { ex.counters[5] += 1; ex.log.push(report(K_FOREIGN, p, 1000 + fd.key as u32, pathsig(&p) & 0xfff)); }
            else { ex.log.push(report(K_MISSING, p, fd.key as u32, 0)); }
        }
        f += 1;
    }
    if ex.log.n != 0 { return false; }
    f = 0;
    while f < nf {
        let mut v = val[f];
        if let Some(c) = d.fields[f].map { ex.counters[c as usize] += 1; v += 1000; }
        ex.view[f] = v;
        f += 1;
    }
    true
}

pub fn struct_spec(d: &StructDesc, n: Node, p: Path, ex: &mut Expect) -> bool {
    match n {
        Node::Map(s, l) => {
            if !fields_spec(d, s, l, 255, p, ex) { return false; }
            validate_spec(d, p, ex)
        }
        other => { ex.log.push(kind_report(p, other, 128, 1)); false }
    }
}
fn validate_spec(d: &StructDesc, p: Path, ex: &mut Expect) -> bool {
    if let Some(c) = d.validate {
        ex.counters[c as usize] += 1;
        let mut s = 0u64; let mut i = 0; while i < MAXF { s += ex.view[i]; i += 1; }
        if s % 7 == 0 { ex.log.push(report(K_FOREIGN, p, 4000 + (s as u32 % 1000), pathsig(&p) & 0xfff)); return false; }
    }
    true
}

/// keep-going run of an internally tagged enum
pub fn enum_spec(d: &EnumDesc, n: Node, p: Path, ex: &mut Expect) -> bool {
    match n {
        Node::Map(s, l) => {
            // the tag: first entry whose key is the tag key
            let mut t = 255u8; let mut i = s;
            while i < s + l { if arena::key(i) == d.tag && t == 255 { t = i; } i += 1; }
            if t == 255 { ex.log.push(report(K_MISSING, p, d.tag as u32, 0)); return false; }
            match arena::node(t) {
                Node::Str(w) => {
                    let mut vi = 0;
                    while vi < d.variants.len() {
                        if d.variants[vi].0 == w {
                            let mut sub = Expect::EMPTY; sub.counters = ex.counters;
                            let ok = match d.variants[vi].1 {
                                VariantDesc::Unit => true,
                                VariantDesc::Named(sd) => fields_spec(sd, s, l, t, p, &mut sub),
                            };
                            ex.log.append(&sub.log); ex.counters = sub.counters;
                            if ok { ex.view[0] = vi as u64 + 1; let mut f = 1; while f < MAXF { ex.view[f] = sub.view[f - 1]; f += 1; } }
                            return ok;
                        }
                        vi += 1;
                    }
                    ex.log.push(report(K_UNEXPECTED, p, 0, 0));
                    false
                }
                other => { ex.log.push(kind_report(p.key(d.tag), other, 32, 1)); false }
            }
        }
        other => { ex.log.push(kind_report(p, other, 128, 1)); false }
    }
}

/// keep-going run of a unit-only enum read from a string: names in declaration order
pub fn unit_enum_spec(names: &[u8], n: Node, p: Path, ex: &mut Expect) -> bool {
    match n {
        Node::Str(w) => {
            let mut vi = 0;
            while vi < names.len() { if names[vi] == w { ex.view[0] = vi as u64 + 1; return true; } vi += 1; }
            ex.log.push(report(K_UNKNOWN_VALUE, p, w as u32, ids_hash(names)));
            false
        }
        other => { ex.log.push(kind_report(p, other, 32, 1)); false }
    }
}

// ---- filtered comparisons, one per property --------------------------------------------------------------

pub fn is_missing_ev(e: &Evt) -> bool { e.kind() == K_MISSING || (e.kind() == K_FOREIGN && e.a() >= 1000 && e.a() < 2000) }
pub fn is_unknown_key_ev(e: &Evt) -> bool { e.kind() == K_UNKNOWN_KEY || (e.kind() == K_FOREIGN && e.a() >= 2000 && e.a() < 3000) }
pub fn is_user_fn_ev(e: &Evt) -> bool { e.kind() == K_FOREIGN && e.a() >= 3000 }
pub fn is_tag_ev(e: &Evt) -> bool { let k = e.kind(); k == K_UNKNOWN_VALUE || k == K_UNEXPECTED || k == K_KIND || k == K_MISSING }

/// up to and including `a`'s first stopped event: wherever `a` or the keep-going run `spec` has an event selected
/// by `sel`, both have the same event (same position, path and payload)
pub fn agree_on(a: &Rec, spec: &Rec, sel: fn(&Evt) -> bool) -> bool {
    let mut i = 0;
    while i < a.n as usize && i < CAP {
        let x = a.ev[i];
        if i < spec.n as usize {
            let y = spec.ev[i];
            if (sel(&x) || sel(&y)) && x.unstopped() != y.unstopped() { return false; }
        } else if sel(&x) { return false; }
        if x.stop() { return true; }
        i += 1;
    }
    // `a` ended without a stop: the selected events of the rest of the keep-going run are missing from it
    while i < spec.n as usize && i < CAP { if sel(&spec.ev[i]) { return false; } i += 1; }
    true
}

/// hand-over events that directly follow a user-function report (a conversion error being handed to the container's
/// error type): same position, same location in both logs, up to the first stop
pub fn agree_on_fn_handover(a: &Rec, spec: &Rec) -> bool {
    if a.n > 0 && a.ev[0].stop() { return true; }
    let mut i = 1;
    while i < a.n as usize && i < CAP {
        let x = a.ev[i];
        let sel_a = x.kind() == K_HANDOVER && is_user_fn_ev(&a.ev[i - 1]);
        if i < spec.n as usize {
            let y = spec.ev[i];
            let sel_s = y.kind() == K_HANDOVER && is_user_fn_ev(&spec.ev[i - 1]);
            if (sel_a || sel_s) && x.unstopped() != y.unstopped() { return false; }
        } else if sel_a { return false; }
        if x.stop() { return true; }
        i += 1;
    }
    while i < spec.n as usize && i < CAP { if i > 0 && spec.ev[i].kind() == K_HANDOVER && is_user_fn_ev(&spec.ev[i - 1]) { return false; } i += 1; }
    true
}

/// some event of the keep-going run is selected by `sel`
pub fn any_ev(spec: &Rec, sel: fn(&Evt) -> bool) -> bool {
    let mut i = 0;
    while i < spec.n as usize && i < CAP { if sel(&spec.ev[i]) { return true; } i += 1; }
    false
}

/// C04 for hand-overs: the location given to `merge` is the position of what is handed over, so it is at or above the
/// location of the call made just before it (a report of the child, or the child's own hand-over one level down)
pub fn handovers_at_or_above_previous(r: &Rec) -> bool {
    let mut i = 1;
    while i < r.n as usize && i < CAP {
        if r.ev[i].kind() == K_HANDOVER && r.ev[i - 1].path().len() <= PATH_MAX as u32 && !r.ev[i].path().is_prefix_of(&r.ev[i - 1].path()) { return false; }
        i += 1;
    }
    true
}

/// C03 for the reports the derived container makes itself through a user function's error (conversion, missing-field / unknown-key
/// function, validation): once such a report is answered Break, the container returns -- every later call is a hand-over.
/// (Valid for the harness shapes used here: no derived type with user functions sits below a container that could continue with
/// siblings after the hand-over.)
pub fn stop_at_user_fn_report_ends_the_container(r: &Rec) -> bool {
    let mut i = 0; let mut stopped = false;
    while i < r.n as usize && i < CAP {
        if stopped && r.ev[i].kind() != K_HANDOVER { return false; }
        if r.ev[i].kind() == K_FOREIGN && r.ev[i].stop() { stopped = true; }
        i += 1;
    }
    true
}
