//! Recording error type: keeps exactly what it is handed (the hypothesis of C01), answers Continue/Break
//! nondeterministically at every call, and mirrors every call into a global log that does not depend on what
//! the library does with the returned value (so a dropped error is visible).
#![allow(static_mut_refs)]
use super::arena::{kind_bit, kind_idx, word_id};
use super::nd;
use deserr::{DeserializeError, ErrorKind, IntoValue, MergeWithError, Sequence, ValuePointerRef};
use std::ops::ControlFlow;

pub const CAP: usize = 8;
pub const PATH_MAX: usize = 3;

/// a location, packed: bits 0..2 = number of steps (saturating at 3 recorded steps; bit 2 = "longer than 3"),
/// then 3 x 9 bits: is_key (1) | dictionary index or sequence index (8)
#[derive(Clone, Copy, PartialEq, Eq, Debug)]
pub struct Path(pub u32);
impl Path {
    pub const ROOT: Path = Path(0);
    pub fn len(self) -> u32 { self.0 & 7 }
    pub fn step(self, i: u32) -> u32 { (self.0 >> (3 + 9 * i)) & 0x1ff }
    fn push(self, s: u32) -> Path {
        let n = self.len();
        if n >= PATH_MAX as u32 { return Path((self.0 & !7) | 4 | (n & 3)); }
        Path(((self.0 & !7) | (n + 1)) | ((s & 0x1ff) << (3 + 9 * n)))
    }
    pub fn key(self, k: u8) -> Path { self.push(256 | k as u32) }
    pub fn idx(self, i: usize) -> Path { self.push((i as u32) & 0xff) }
    pub fn is_prefix_of(&self, o: &Path) -> bool {
        let n = self.len();
        if n > o.len() || n > PATH_MAX as u32 { return false; }
        let bits = 9 * n;
        let mask: u32 = if bits == 0 { 0 } else { ((1u32 << bits) - 1) << 3 };
        (self.0 & mask) == (o.0 & mask)
    }
}
pub fn path_of(loc: ValuePointerRef) -> Path {
    // walk back (newest step first), then push oldest first
    let mut rev = [0u32; PATH_MAX + 1];
    let mut n = 0usize;
    let mut cur = loc;
    loop {
        match cur {
            ValuePointerRef::Origin => break,
            ValuePointerRef::Key { key, prev } => { if n <= PATH_MAX { rev[n] = 256 | word_id(key) as u32; } n += 1; cur = *prev; }
            ValuePointerRef::Index { index, prev } => { if n <= PATH_MAX { rev[n] = (index as u32) & 0xff; } n += 1; cur = *prev; }
        }
    }
    let mut p = Path::ROOT;
    let mut i = 0;
    while i < n && i <= PATH_MAX { p = p.push(rev[n.min(PATH_MAX + 1) - 1 - i]); i += 1; }
    p
}
/// short signature of a location: what a user function can say about the location it was given
pub fn pathsig(p: &Path) -> u32 { p.0 % 8191 }

pub const K_KIND: u8 = 0; pub const K_MISSING: u8 = 1; pub const K_UNKNOWN_KEY: u8 = 2; pub const K_UNKNOWN_VALUE: u8 = 3;
pub const K_BADLEN: u8 = 4; pub const K_UNEXPECTED: u8 = 5; pub const K_FOREIGN: u8 = 6; pub const K_HANDOVER: u8 = 255;

/// one call made to the error type, packed into one word (cheap to copy and compare under CBMC):
/// kind (8) | stop (1) | path (30) | a (13) | b (12)
///   a: K_KIND: accepted bitmask | actual kind index << 8 ; K_MISSING/K_UNKNOWN_*: dictionary index of the field/key/value;
///      K_BADLEN: actual len | expected << 4 ; K_FOREIGN: payload of the foreign error (< 8192)
///   b: K_UNKNOWN_*: positional hash of the accepted list ; K_KIND: number of entries of the accepted slice ; K_FOREIGN: 2nd payload
#[derive(Clone, Copy, PartialEq, Eq, Debug)]
pub struct Evt(pub u64);
impl Evt {
    pub fn new(kind: u8, path: Path, stop: bool, a: u32, b: u32) -> Evt {
        Evt((kind as u64) | ((stop as u64) << 8) | (((path.0 & 0x3fff_ffff) as u64) << 9) | (((a & 0x1fff) as u64) << 39) | (((b & 0xfff) as u64) << 52))
    }
    pub fn kind(&self) -> u8 { (self.0 & 0xff) as u8 }
    pub fn stop(&self) -> bool { (self.0 >> 8) & 1 == 1 }
    pub fn path(&self) -> Path { Path(((self.0 >> 9) & 0x3fff_ffff) as u32) }
    pub fn a(&self) -> u32 { ((self.0 >> 39) & 0x1fff) as u32 }
    pub fn b(&self) -> u32 { ((self.0 >> 52) & 0xfff) as u32 }
    pub fn is_report(&self) -> bool { self.kind() != K_HANDOVER }
    pub fn unstopped(&self) -> Evt { Evt(self.0 & !(1u64 << 8)) }
}
pub const NO_EVT: Evt = Evt(0);

pub fn list_hash(l: &[&str]) -> u32 {
    let mut h: u32 = l.len() as u32;
    let mut i = 0;
    while i < l.len() { h = h.wrapping_mul(31).wrapping_add(word_id(l[i]) as u32 + 1); i += 1; }
    h & 0xfff
}
pub fn ids_hash(l: &[u8]) -> u32 {
    let mut h: u32 = l.len() as u32;
    let mut i = 0;
    while i < l.len() { h = h.wrapping_mul(31).wrapping_add(l[i] as u32 + 1); i += 1; }
    h & 0xfff
}

#[derive(Clone, Copy, Debug)]
pub struct Rec { pub n: u8, pub ev: [Evt; CAP] }
impl Rec {
    pub const EMPTY: Rec = Rec { n: 0, ev: [NO_EVT; CAP] };
    pub fn push(&mut self, e: Evt) { if (self.n as usize) < CAP { self.ev[self.n as usize] = e; } self.n += 1; }
    pub fn append(&mut self, o: &Rec) { let mut i = 0; while i < o.n as usize && i < CAP { self.push(o.ev[i]); i += 1; } if o.n as usize > CAP { self.n += o.n - CAP as u8; } }
    pub fn same(&self, o: &Rec) -> bool {
        if self.n != o.n { return false; }
        let mut i = 0;
        while i < self.n as usize && i < CAP { if self.ev[i] != o.ev[i] { return false; } i += 1; }
        true
    }
    pub fn get(&self, i: usize) -> Evt { self.ev[i] }
    pub fn overflowed(&self) -> bool { self.n as usize > CAP }
}
/// every call, in call order, whatever the library did with the values it got back
pub static mut GLOBAL: Rec = Rec::EMPTY;
/// number of `error` / `merge` calls
pub static mut CALLS: u32 = 0;
/// when set, every answer is Continue (keep-going error type) / Break (fail-fast) instead of nondeterministic
pub static mut POLICY: u8 = 0; // 0 = nondeterministic, 1 = always Continue, 2 = always Break
pub fn reset() { unsafe { GLOBAL = Rec::EMPTY; CALLS = 0; POLICY = 0; } }
pub fn set_policy(p: u8) { unsafe { POLICY = p; } }
pub fn global() -> Rec { unsafe { GLOBAL } }
pub fn calls() -> u32 { unsafe { CALLS } }

fn answer() -> bool {
    match unsafe { POLICY } { 1 => false, 2 => true, _ => nd::bool() }
}
fn finish(r: Rec, stop: bool) -> ControlFlow<Rec, Rec> { if stop { ControlFlow::Break(r) } else { ControlFlow::Continue(r) } }

pub fn view<V: IntoValue>(k: &ErrorKind<V>) -> (u8, u32, u32) {
    match k {
        ErrorKind::IncorrectValueKind { actual, accepted } => {
            let mut m = 0u32; let mut i = 0;
            while i < accepted.len() { m |= kind_bit(accepted[i]); i += 1; }
            (K_KIND, m | (kind_idx(actual.kind()) << 8), accepted.len() as u32)
        }
        ErrorKind::MissingField { field } => (K_MISSING, word_id(field) as u32, 0),
        ErrorKind::UnknownKey { key, accepted } => (K_UNKNOWN_KEY, word_id(key) as u32, list_hash(accepted)),
        ErrorKind::UnknownValue { value, accepted } => (K_UNKNOWN_VALUE, word_id(value) as u32, list_hash(accepted)),
        ErrorKind::BadSequenceLen { actual, expected } => (K_BADLEN, ((actual.len() as u32) & 15) | (((*expected as u32) & 15) << 4), 0),
        ErrorKind::Unexpected { .. } => (K_UNEXPECTED, 0, 0),
    }
}

impl DeserializeError for Rec {
    fn error<V: IntoValue>(self_: Option<Self>, error: ErrorKind<V>, location: ValuePointerRef) -> ControlFlow<Self, Self> {
        let stop = answer();
        let (kind, a, b) = view(&error);
        let e = Evt::new(kind, path_of(location), stop, a, b);
        unsafe { GLOBAL.push(e); CALLS += 1; }
        let mut r = self_.unwrap_or(Rec::EMPTY);
        r.push(e);
        finish(r, stop)
    }
}
impl MergeWithError<Rec> for Rec {
    fn merge(self_: Option<Self>, other: Rec, merge_location: ValuePointerRef) -> ControlFlow<Self, Self> {
        let stop = answer();
        let e = Evt::new(K_HANDOVER, path_of(merge_location), stop, 0, 0);
        unsafe { GLOBAL.push(e); CALLS += 1; }
        let mut r = self_.unwrap_or(Rec::EMPTY);
        r.append(&other);
        r.push(e);
        finish(r, stop)
    }
}
/// a foreign (user function) error: handed to `MergeWithError<Foreign>`, recorded as one K_FOREIGN report
#[derive(Clone, Copy, Debug, PartialEq, Eq)]
pub struct Foreign(pub u32, pub u32);
impl MergeWithError<Foreign> for Rec {
    fn merge(self_: Option<Self>, other: Foreign, merge_location: ValuePointerRef) -> ControlFlow<Self, Self> {
        let stop = answer();
        let e = Evt::new(K_FOREIGN, path_of(merge_location), stop, other.0, other.1);
        unsafe { GLOBAL.push(e); CALLS += 1; }
        let mut r = self_.unwrap_or(Rec::EMPTY);
        r.push(e);
        finish(r, stop)
    }
}

/// a second recording error type, used as a *field-level* error type (`#[deserr(error = Rec2)]`): it records like `Rec`
/// and is handed over to `Rec` through `MergeWithError<Rec2> for Rec` (one hand-over event at the merge location)
#[derive(Clone, Copy, Debug)]
pub struct Rec2(pub Rec);
impl DeserializeError for Rec2 {
    fn error<V: IntoValue>(self_: Option<Self>, error: ErrorKind<V>, location: ValuePointerRef) -> ControlFlow<Self, Self> {
        match <Rec as DeserializeError>::error::<V>(self_.map(|r| r.0), error, location) { ControlFlow::Continue(r) => ControlFlow::Continue(Rec2(r)), ControlFlow::Break(r) => ControlFlow::Break(Rec2(r)) }
    }
}
impl MergeWithError<Rec2> for Rec2 {
    fn merge(self_: Option<Self>, other: Rec2, merge_location: ValuePointerRef) -> ControlFlow<Self, Self> {
        match <Rec as MergeWithError<Rec>>::merge(self_.map(|r| r.0), other.0, merge_location) { ControlFlow::Continue(r) => ControlFlow::Continue(Rec2(r)), ControlFlow::Break(r) => ControlFlow::Break(Rec2(r)) }
    }
}
impl MergeWithError<Foreign> for Rec2 {
    fn merge(self_: Option<Self>, other: Foreign, merge_location: ValuePointerRef) -> ControlFlow<Self, Self> {
        match <Rec as MergeWithError<Foreign>>::merge(self_.map(|r| r.0), other, merge_location) { ControlFlow::Continue(r) => ControlFlow::Continue(Rec2(r)), ControlFlow::Break(r) => ControlFlow::Break(Rec2(r)) }
    }
}
impl MergeWithError<Rec2> for Rec {
    fn merge(self_: Option<Self>, other: Rec2, merge_location: ValuePointerRef) -> ControlFlow<Self, Self> {
        <Rec as MergeWithError<Rec>>::merge(self_, other.0, merge_location)
    }
}

// ---- the trace laws of DESIGN §3.3, executable ------------------------------------------------------------

/// S1: an event answered Break is followed, if by anything, by a hand-over
pub fn stop_then_handover(r: &Rec) -> bool {
    let mut i = 0;
    while i + 1 < r.n as usize && i + 1 < CAP { if r.ev[i].stop() && r.ev[i + 1].is_report() { return false; } i += 1; }
    true
}
/// U: events up to and including the first stopped one equal the keep-going run (stop flags erased)
pub fn agree_until_stop(r: &Rec, spec: &Rec) -> bool {
    let mut i = 0;
    while i < r.n as usize && i < CAP {
        if i >= spec.n as usize { return false; }
        let (a, b) = (r.ev[i], spec.ev[i]);
        if a.unstopped() != b.unstopped() { return false; }
        if a.stop() { return true; }
        i += 1;
    }
    true
}
pub fn no_stop(r: &Rec) -> bool { let mut i = 0; while i < r.n as usize && i < CAP { if r.ev[i].stop() { return false; } i += 1; } true }
pub fn all_under(r: &Rec, p: &Path) -> bool { let mut i = 0; while i < r.n as usize && i < CAP { if !p.is_prefix_of(&r.ev[i].path()) { return false; } i += 1; } true }
