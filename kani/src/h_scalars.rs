//! C05 (and the scalar instances of the Deserr trait contract used by the Verus container proofs):
//! loop-free harnesses over the full domain of every payload kind => complete proofs, not bounded ones.
use crate::support::{arena::{self, *}, nd, rec::{self, *}};
use crate::{oblige, reach};
use deserr::{Deserr, ValuePointerRef};
use std::num::*;

pub static DICT: [&str; 1] = ["s"];

pub fn any_scalar_node() -> Node {
    match nd::below(8) {
        0 => Node::Null, 1 => Node::Bool(nd::bool()), 2 => Node::Int(nd::u64()), 3 => Node::Neg(nd::i64()),
        4 => Node::Float(nd::f64()), 5 => Node::Str(0), 6 => Node::Seq(0, 0), _ => Node::Map(0, 0),
    }
}
const M_INT: u32 = 4; const M_NEG: u32 = 8; const M_FLOAT: u32 = 16;

/// the executable form of the trait contract for a leaf: exactly one report, at the location given, nothing else
pub fn one_report_at(e: &Rec, p: &Path) -> bool { e.n == 1 && rec::calls() == 1 && e.same(&rec::global()) && e.ev[0].path() == *p && e.ev[0].is_report() }

/// `ood` = some admissible-kind payload lies outside the target's domain (false for u64/u128/usize/i128, whose
/// domain contains every u64 / i64 payload)
macro_rules! maybe_reach { (ood, $c:expr, $n:expr) => { reach!($c, $n) }; (all, $c:expr, $n:expr) => { let _ = $c; }; }
macro_rules! int_harness {
    ($name:ident, $t:ty, $signed:expr, $nz:expr, $min:expr, $max:expr, $conv:expr, $ood:tt) => {
        pub fn $name() {
            arena::set_dict(&DICT); rec::reset();
            let node = any_scalar_node();
            let o = ValuePointerRef::Origin; let l = o.push_index(3);
            let p = Path::ROOT.idx(3);
            let r = <$t as Deserr<Rec>>::deserialize_from_value::<KV>(to_value(node), l);
            let val: Option<i128> = match node { Node::Int(x) => Some(x as i128), Node::Neg(y) if $signed => Some(y as i128), _ => None };
            let kind_ok = val.is_some();
            let in_dom = match val { Some(v) => v >= $min && v <= $max && !($nz && v == 0), None => false };
            let mask = if $signed { M_INT | M_NEG } else { M_INT };
            reach!(kind_ok && in_dom, "reach:accepted"); maybe_reach!($ood, kind_ok && !in_dom, "reach:out_of_domain"); reach!(!kind_ok, "reach:wrong_kind");
            match r {
                Ok(v) => {
                    oblige!(kind_ok && in_dom, "C05:ok_only_when_admissible_and_in_domain");
                    let f: fn($t) -> i128 = $conv;
                    oblige!(Some(f(v)) == val, "C05:result_equals_input_exactly");
                    oblige!(rec::calls() == 0, "C01:ok_only_if_nothing_reported");
                }
                Err(e) => {
                    oblige!(!(kind_ok && in_dom), "C05:fails_only_when_inadmissible_or_out_of_domain");
                    oblige!(one_report_at(&e, &p), "C01,C04:exactly_one_report_at_the_given_location");
                    let ev = e.ev[0];
                    if !kind_ok {
                        oblige!(ev.kind() == K_KIND, "C05:wrong_kind_gives_kind_error");
                        oblige!((ev.a() & 0xff) == mask && ev.b() == mask.count_ones(), "C05:kind_error_lists_exactly_the_admissible_kinds");
                        oblige!((ev.a() >> 8) == kind_idx(kind_of(node)), "C04:actual_is_the_value_found");
                    } else {
                        oblige!(ev.kind() == K_UNEXPECTED, "C05:domain_error_when_only_the_domain_is_wrong");
                    }
                }
            }
        }
    };
}
const I128MAX: i128 = i128::MAX;
int_harness!(scalar_u8, u8, false, false, 0, u8::MAX as i128, |v| v as i128, ood);
int_harness!(scalar_u16, u16, false, false, 0, u16::MAX as i128, |v| v as i128, ood);
int_harness!(scalar_u32, u32, false, false, 0, u32::MAX as i128, |v| v as i128, ood);
int_harness!(scalar_u64, u64, false, false, 0, u64::MAX as i128, |v| v as i128, all);
int_harness!(scalar_u128, u128, false, false, 0, I128MAX, |v| v as i128, all);
int_harness!(scalar_usize, usize, false, false, 0, usize::MAX as i128, |v| v as i128, all);
int_harness!(scalar_i8, i8, true, false, i8::MIN as i128, i8::MAX as i128, |v| v as i128, ood);
int_harness!(scalar_i16, i16, true, false, i16::MIN as i128, i16::MAX as i128, |v| v as i128, ood);
int_harness!(scalar_i32, i32, true, false, i32::MIN as i128, i32::MAX as i128, |v| v as i128, ood);
int_harness!(scalar_i64, i64, true, false, i64::MIN as i128, i64::MAX as i128, |v| v as i128, ood);
int_harness!(scalar_i128, i128, true, false, i128::MIN, I128MAX, |v| v, all);
int_harness!(scalar_isize, isize, true, false, isize::MIN as i128, isize::MAX as i128, |v| v as i128, ood);
int_harness!(scalar_nzu8, NonZeroU8, false, true, 0, u8::MAX as i128, |v| v.get() as i128, ood);
int_harness!(scalar_nzu16, NonZeroU16, false, true, 0, u16::MAX as i128, |v| v.get() as i128, ood);
int_harness!(scalar_nzu32, NonZeroU32, false, true, 0, u32::MAX as i128, |v| v.get() as i128, ood);
int_harness!(scalar_nzu64, NonZeroU64, false, true, 0, u64::MAX as i128, |v| v.get() as i128, ood);
int_harness!(scalar_nzu128, NonZeroU128, false, true, 0, I128MAX, |v| v.get() as i128, ood);
int_harness!(scalar_nzusize, NonZeroUsize, false, true, 0, usize::MAX as i128, |v| v.get() as i128, ood);
int_harness!(scalar_nzi8, NonZeroI8, true, true, i8::MIN as i128, i8::MAX as i128, |v| v.get() as i128, ood);
int_harness!(scalar_nzi16, NonZeroI16, true, true, i16::MIN as i128, i16::MAX as i128, |v| v.get() as i128, ood);
int_harness!(scalar_nzi32, NonZeroI32, true, true, i32::MIN as i128, i32::MAX as i128, |v| v.get() as i128, ood);
int_harness!(scalar_nzi64, NonZeroI64, true, true, i64::MIN as i128, i64::MAX as i128, |v| v.get() as i128, ood);
int_harness!(scalar_nzi128, NonZeroI128, true, true, i128::MIN, I128MAX, |v| v.get(), ood);
int_harness!(scalar_nzisize, NonZeroIsize, true, true, isize::MIN as i128, isize::MAX as i128, |v| v.get() as i128, ood);

macro_rules! float_harness {
    ($name:ident, $t:ty) => {
        pub fn $name() {
            arena::set_dict(&DICT); rec::reset();
            let node = any_scalar_node();
            let o = ValuePointerRef::Origin; let l = o.push_index(3);
            let p = Path::ROOT.idx(3);
            let r = <$t as Deserr<Rec>>::deserialize_from_value::<KV>(to_value(node), l);
            // the IEEE conversion of the given number
            let want: Option<$t> = match node { Node::Int(x) => Some(x as $t), Node::Neg(y) => Some(y as $t), Node::Float(f) => Some(f as $t), _ => None };
            reach!(want.is_some(), "reach:accepted"); reach!(want.is_none(), "reach:wrong_kind");
            match r {
                Ok(v) => {
                    oblige!(want.is_some(), "C05:ok_only_when_admissible_and_in_domain");
                    oblige!(want.map(|w| w.to_bits()) == Some(v.to_bits()), "C05:result_equals_input_exactly");
                    oblige!(rec::calls() == 0, "C01:ok_only_if_nothing_reported");
                }
                Err(e) => {
                    oblige!(want.is_none(), "C05:fails_only_when_inadmissible_or_out_of_domain");
                    oblige!(one_report_at(&e, &p), "C01,C04:exactly_one_report_at_the_given_location");
                    let ev = e.ev[0];
                    oblige!(ev.kind() == K_KIND, "C05:wrong_kind_gives_kind_error");
                    oblige!((ev.a() & 0xff) == (M_INT | M_NEG | M_FLOAT) && ev.b() == 3, "C05:kind_error_lists_exactly_the_admissible_kinds");
                    oblige!((ev.a() >> 8) == kind_idx(kind_of(node)), "C04:actual_is_the_value_found");
                }
            }
        }
    };
}
float_harness!(scalar_f32, f32);
float_harness!(scalar_f64, f64);

/// integers that are exactly representable convert back exactly (never wrapped, truncated or clamped)
pub fn scalar_float_exact_roundtrip() {
    arena::set_dict(&DICT); rec::reset();
    let x = nd::u64(); let y = nd::i64();
    let o = ValuePointerRef::Origin;
    if x <= (1u64 << 53) {
        let r = <f64 as Deserr<Rec>>::deserialize_from_value::<KV>(to_value(Node::Int(x)), o);
        oblige!(matches!(r, Ok(v) if v as u64 == x && v >= 0.0), "C05:result_equals_input_exactly");
    }
    if x <= (1u64 << 24) {
        let r = <f32 as Deserr<Rec>>::deserialize_from_value::<KV>(to_value(Node::Int(x)), o);
        oblige!(matches!(r, Ok(v) if v as u64 == x && v >= 0.0), "C05:result_equals_input_exactly");
    }
    if y >= -(1i64 << 53) && y <= (1i64 << 53) {
        let r = <f64 as Deserr<Rec>>::deserialize_from_value::<KV>(to_value(Node::Neg(y)), o);
        oblige!(matches!(r, Ok(v) if v as i64 == y), "C05:result_equals_input_exactly");
    }
}

macro_rules! simple_harness {
    ($name:ident, $t:ty, $mask:expr, $accept:expr, $same:expr) => {
        pub fn $name() {
            arena::set_dict(&DICT); rec::reset();
            let node = any_scalar_node();
            let o = ValuePointerRef::Origin; let l = o.push_index(3);
            let p = Path::ROOT.idx(3);
            let r = <$t as Deserr<Rec>>::deserialize_from_value::<KV>(to_value(node), l);
            let acc: fn(Node) -> bool = $accept;
            let same: fn(&$t, Node) -> bool = $same;
            reach!(acc(node), "reach:accepted"); reach!(!acc(node), "reach:wrong_kind");
            match r {
                Ok(v) => {
                    oblige!(acc(node), "C05:ok_only_when_admissible_and_in_domain");
                    oblige!(same(&v, node), "C05:result_equals_input_exactly");
                    oblige!(rec::calls() == 0, "C01:ok_only_if_nothing_reported");
                }
                Err(e) => {
                    oblige!(!acc(node), "C05:fails_only_when_inadmissible_or_out_of_domain");
                    oblige!(one_report_at(&e, &p), "C01,C04:exactly_one_report_at_the_given_location");
                    let ev = e.ev[0];
                    oblige!(ev.kind() == K_KIND, "C05:wrong_kind_gives_kind_error");
                    oblige!((ev.a() & 0xff) == $mask && ev.b() == 1, "C05:kind_error_lists_exactly_the_admissible_kinds");
                    oblige!((ev.a() >> 8) == kind_idx(kind_of(node)), "C04:actual_is_the_value_found");
                }
            }
        }
    };
}
simple_harness!(scalar_bool, bool, 2u32, |n| matches!(n, Node::Bool(_)), |v, n| n == Node::Bool(*v));
simple_harness!(scalar_unit, (), 1u32, |n| matches!(n, Node::Null), |_v, n| n == Node::Null);

pub static SDICT: [&str; 1] = [""];
fn non_string_node() -> Node {
    match nd::below(7) { 0 => Node::Null, 1 => Node::Bool(nd::bool()), 2 => Node::Int(nd::u64()), 3 => Node::Neg(nd::i64()), 4 => Node::Float(nd::f64()), 5 => Node::Seq(0, 0), _ => Node::Map(0, 0) }
}
/// kind part of String and char (full domain of the non-string kinds). String *contents* are proved in the Verus
/// unit (`represents`: the result is the payload string itself); char contents: see `scalar_char_empty`.
pub fn scalar_string_kinds() {
    arena::set_dict(&SDICT); rec::reset();
    let node = non_string_node();
    let o = ValuePointerRef::Origin; let l = o.push_index(3);
    let p = Path::ROOT.idx(3);
    match <String as Deserr<Rec>>::deserialize_from_value::<KV>(to_value(node), l) {
        Ok(_) => { oblige!(false, "C05:ok_only_when_admissible_and_in_domain"); }
        Err(e) => {
            oblige!(one_report_at(&e, &p), "C01,C04:exactly_one_report_at_the_given_location");
            oblige!(e.ev[0].kind() == K_KIND && (e.ev[0].a() & 0xff) == 32 && e.ev[0].b() == 1, "C05:kind_error_lists_exactly_the_admissible_kinds");
            oblige!((e.ev[0].a() >> 8) == kind_idx(kind_of(node)), "C04:actual_is_the_value_found");
        }
    }
}
fn char_kind_case(node: Node) {
    rec::reset();
    let o = ValuePointerRef::Origin; let l = o.push_index(3);
    let p = Path::ROOT.idx(3);
    match <char as Deserr<Rec>>::deserialize_from_value::<KV>(to_value(node), l) {
        Ok(_) => { oblige!(false, "C05:ok_only_when_admissible_and_in_domain"); }
        Err(e) => {
            oblige!(one_report_at(&e, &p), "C01,C04:exactly_one_report_at_the_given_location");
            oblige!(e.ev[0].kind() == K_KIND && (e.ev[0].a() & 0xff) == 32 && e.ev[0].b() == 1, "C05:kind_error_lists_exactly_the_admissible_kinds");
            oblige!((e.ev[0].a() >> 8) == kind_idx(kind_of(node)), "C04:actual_is_the_value_found");
        }
    }
}
/// each non-string kind with a concrete discriminant and a fully symbolic payload (keeps CBMC out of `str::chars`)
pub fn scalar_char_kinds() {
    arena::set_dict(&SDICT);
    char_kind_case(Node::Null); char_kind_case(Node::Bool(nd::bool())); char_kind_case(Node::Int(nd::u64())); char_kind_case(Node::Neg(nd::i64()));
    char_kind_case(Node::Float(nd::f64())); char_kind_case(Node::Seq(0, 0)); char_kind_case(Node::Map(0, 0));
}
/// the empty string is not a char: one domain error (bounded: this one string)
pub fn scalar_char_empty() {
    arena::set_dict(&SDICT); rec::reset();
    let o = ValuePointerRef::Origin; let l = o.push_index(3);
    let p = Path::ROOT.idx(3);
    match <char as Deserr<Rec>>::deserialize_from_value::<KV>(to_value(Node::Str(0)), l) {
        Ok(_) => { oblige!(false, "C05:ok_only_when_admissible_and_in_domain"); }
        Err(e) => {
            oblige!(one_report_at(&e, &p), "C01,C04:exactly_one_report_at_the_given_location");
            oblige!(e.ev[0].kind() == K_UNEXPECTED, "C05:domain_error_when_only_the_domain_is_wrong");
        }
    }
}


// ---- C05, text of the domain errors: BOUNDED (native execution only; String building is outside CBMC's practical reach) ----
#[cfg(not(kani))]
mod text {
    use crate::support::nd;
    use crate::oblige;
    use deserr::{DeserializeError, ErrorKind, IntoValue, MergeWithError, ValuePointerRef};
    use serde_json::{json, Value as J};
    use std::ops::ControlFlow;
    /// captures the detail message of an Unexpected report (anything else: a marker)
    pub struct Msg(pub String);
    impl MergeWithError<Msg> for Msg { fn merge(_s: Option<Self>, o: Msg, _l: ValuePointerRef) -> ControlFlow<Self, Self> { ControlFlow::Break(o) } }
    impl DeserializeError for Msg {
        fn error<V: IntoValue>(_s: Option<Self>, e: ErrorKind<V>, _l: ValuePointerRef) -> ControlFlow<Self, Self> {
            ControlFlow::Break(Msg(match e { ErrorKind::Unexpected { msg } => msg, _ => "<other kind>".to_string() }))
        }
    }
    fn tick(s: &str) -> String { format!("`{s}`") }
    /// integer payloads around every bound
    fn payloads() -> Vec<(i128, J)> {
        let mut v: Vec<(i128, J)> = Vec::new();
        for b in [8u32, 16, 32, 63, 64] {
            let p = 1u128 << b;
            for d in [-1i128, 0, 1] { let x = p as i128 + d; if x <= u64::MAX as i128 { v.push((x, json!(x as u64))); } }
            for d in [-1i128, 0, 1] { let x = -(p as i128) / 2 + d; if x >= i64::MIN as i128 && x < 0 { v.push((x, json!(x as i64))); } }
        }
        v.push((0, json!(0))); v.push((127, json!(127))); v.push((128, json!(128))); v.push((-129, json!(-129))); v.push((70000, json!(70000))); v.push((-70000, json!(-70000)));
        v
    }
    macro_rules! int_case { ($t:ty, $bt:ty, $min:expr, $max:expr, $nonzero:expr, $n:expr, $doc:expr) => {{
        let r = deserr::deserialize::<$t, J, Msg>($doc);
        let (min, max): (i128, i128) = ($min, $max);
        let (mins, maxs) = (<$bt>::MIN.to_string(), <$bt>::MAX.to_string());   // the bounds as the target type prints them (u128::MAX does not fit the i128 used for the comparison; no payload reaches it)
        let inrange = $n >= min && $n <= max && !($nonzero && $n == 0);
        match r {
            Ok(_) => { oblige!(inrange, "C05:ok_iff_in_domain"); }
            Err(Msg(m)) => {
                oblige!(!inrange, "C05:ok_iff_in_domain");
                // a negative integer is not an admissible *kind* for an unsigned target: kind error (decided by the Kani harnesses), no detail message
                if min == 0 && $n < 0 { oblige!(m == "<other kind>", "C05:kind_error_when_the_kind_is_wrong"); }
                else if $nonzero && $n == 0 { oblige!(m.contains("zero") && (m.contains(&tick(&maxs)) || m.contains(&tick(&mins))), "C05:domain_error_identifies_what_was_received_and_the_violated_bound"); }
                else if $n > max { oblige!(m.contains(&tick(&$n.to_string())) && m.contains(&tick(&maxs)), "C05:domain_error_identifies_what_was_received_and_the_violated_bound"); }
                else { oblige!(m.contains(&tick(&$n.to_string())) && m.contains(&tick(&mins)), "C05:domain_error_identifies_what_was_received_and_the_violated_bound"); }
            }
        }
    }}; }
    pub fn scalar_messages() {
        use std::num::*;
        let ps = payloads();
        let (n, doc) = ps[nd::below(ps.len() as u8) as usize].clone();
        match nd::below(24) {
            0 => int_case!(u8, u8, 0, u8::MAX as i128, false, n, doc), 1 => int_case!(u16, u16, 0, u16::MAX as i128, false, n, doc), 2 => int_case!(u32, u32, 0, u32::MAX as i128, false, n, doc),
            3 => int_case!(u64, u64, 0, u64::MAX as i128, false, n, doc), 4 => int_case!(u128, u128, 0, i128::MAX, false, n, doc), 5 => int_case!(usize, usize, 0, usize::MAX as i128, false, n, doc),
            6 => int_case!(i8, i8, i8::MIN as i128, i8::MAX as i128, false, n, doc), 7 => int_case!(i16, i16, i16::MIN as i128, i16::MAX as i128, false, n, doc), 8 => int_case!(i32, i32, i32::MIN as i128, i32::MAX as i128, false, n, doc),
            9 => int_case!(i64, i64, i64::MIN as i128, i64::MAX as i128, false, n, doc), 10 => int_case!(i128, i128, i128::MIN, i128::MAX, false, n, doc), 11 => int_case!(isize, isize, isize::MIN as i128, isize::MAX as i128, false, n, doc),
            12 => int_case!(NonZeroU8, u8, 0, u8::MAX as i128, true, n, doc), 13 => int_case!(NonZeroU16, u16, 0, u16::MAX as i128, true, n, doc), 14 => int_case!(NonZeroU32, u32, 0, u32::MAX as i128, true, n, doc),
            15 => int_case!(NonZeroU64, u64, 0, u64::MAX as i128, true, n, doc), 16 => int_case!(NonZeroU128, u128, 0, i128::MAX, true, n, doc), 17 => int_case!(NonZeroUsize, usize, 0, usize::MAX as i128, true, n, doc),
            18 => int_case!(NonZeroI8, i8, i8::MIN as i128, i8::MAX as i128, true, n, doc), 19 => int_case!(NonZeroI16, i16, i16::MIN as i128, i16::MAX as i128, true, n, doc), 20 => int_case!(NonZeroI32, i32, i32::MIN as i128, i32::MAX as i128, true, n, doc),
            21 => int_case!(NonZeroI64, i64, i64::MIN as i128, i64::MAX as i128, true, n, doc), 22 => int_case!(NonZeroI128, i128, i128::MIN, i128::MAX, true, n, doc), _ => int_case!(NonZeroIsize, isize, isize::MIN as i128, isize::MAX as i128, true, n, doc),
        }
    }
    /// char / String contents: strings of 0..=3 scalar values over a pool with ASCII, 2-, 3- and 4-byte characters
    pub fn scalar_text_contents() {
        const POOL: [char; 5] = ['a', '\u{e9}', '\u{20ac}', '\u{1f600}', '`'];
        // short strings: every string of 0..=3 scalar values over the pool; long strings: 17..=26 ASCII bytes with one pool
        // character in front, behind or after 19 / 20 bytes (multi-byte characters straddling any small byte offset)
        let mut s = String::new();
        let len;
        if nd::bool() {
            len = nd::below(4) as usize;
            for _ in 0..len { s.push(POOL[nd::below(5) as usize]); }
        } else {
            let n = 17 + nd::below(10) as usize;
            let c = POOL[nd::below(5) as usize];
            match nd::below(3) { 0 => { s.push(c); for _ in 0..n { s.push('a'); } } 1 => { for _ in 0..n { s.push('a'); } s.push(c); } _ => { for _ in 0..n { s.push('a'); } s.push(c); s.push('z'); s.push(c); } }
            len = s.chars().count();
        }
        match deserr::deserialize::<String, J, Msg>(json!(s.clone())) { Ok(t) => { oblige!(t == s, "C05:result_equals_the_input_textually"); } Err(_) => { oblige!(false, "C05:ok_iff_in_domain"); } }
        match deserr::deserialize::<char, J, Msg>(json!(s.clone())) {
            Ok(c) => { oblige!(len == 1 && s.chars().next() == Some(c), "C05:ok_iff_in_domain"); }
            Err(Msg(m)) => {
                oblige!(len != 1, "C05:ok_iff_in_domain");
                oblige!(if len == 0 { m.contains("empty") } else { m.contains(&len.to_string()) && m.contains(&tick(&s)) }, "C05:domain_error_identifies_what_was_received_and_the_violated_bound");
            }
        }
    }
}
#[cfg(not(kani))]
pub use text::{scalar_messages, scalar_text_contents};
#[cfg(kani)]
pub fn scalar_messages() {}
#[cfg(kani)]
pub fn scalar_text_contents() {}

pub fn registry() -> Vec<(&'static str, crate::Body)> {
    vec![
        ("scalar_u8", scalar_u8 as crate::Body), ("scalar_u16", scalar_u16), ("scalar_u32", scalar_u32), ("scalar_u64", scalar_u64),
        ("scalar_u128", scalar_u128), ("scalar_usize", scalar_usize), ("scalar_i8", scalar_i8), ("scalar_i16", scalar_i16),
        ("scalar_i32", scalar_i32), ("scalar_i64", scalar_i64), ("scalar_i128", scalar_i128), ("scalar_isize", scalar_isize),
        ("scalar_nzu8", scalar_nzu8), ("scalar_nzu16", scalar_nzu16), ("scalar_nzu32", scalar_nzu32), ("scalar_nzu64", scalar_nzu64),
        ("scalar_nzu128", scalar_nzu128), ("scalar_nzusize", scalar_nzusize), ("scalar_nzi8", scalar_nzi8), ("scalar_nzi16", scalar_nzi16),
        ("scalar_nzi32", scalar_nzi32), ("scalar_nzi64", scalar_nzi64), ("scalar_nzi128", scalar_nzi128), ("scalar_nzisize", scalar_nzisize),
        ("scalar_f32", scalar_f32), ("scalar_f64", scalar_f64), ("scalar_float_exact_roundtrip", scalar_float_exact_roundtrip),
        ("scalar_bool", scalar_bool), ("scalar_unit", scalar_unit), ("scalar_string_kinds", scalar_string_kinds), ("scalar_char_kinds", scalar_char_kinds), ("scalar_char_empty", scalar_char_empty), ("scalar_messages", scalar_messages), ("scalar_text_contents", scalar_text_contents),
    ]
}

#[cfg(kani)]
mod proofs {
    use super::*;
    macro_rules! proof { ($($n:ident),*) => { $( mod $n { #[kani::proof] #[kani::unwind(6)] #[kani::stub(alloc::fmt::format, crate::fake_format)] fn check() { super::super::$n() } } )* } }
    proof!(scalar_u8, scalar_u16, scalar_u32, scalar_u64, scalar_u128, scalar_usize, scalar_i8, scalar_i16, scalar_i32, scalar_i64, scalar_i128, scalar_isize,
           scalar_nzu8, scalar_nzu16, scalar_nzu32, scalar_nzu64, scalar_nzu128, scalar_nzusize, scalar_nzi8, scalar_nzi16, scalar_nzi32, scalar_nzi64, scalar_nzi128, scalar_nzisize,
           scalar_f32, scalar_f64, scalar_float_exact_roundtrip, scalar_bool, scalar_unit);
    macro_rules! sproof { ($($n:ident),*) => { $( mod $n { #[kani::proof] #[kani::unwind(14)] #[kani::stub(alloc::fmt::format, crate::fake_format)] fn check() { super::super::$n() } } )* } }
    sproof!(scalar_string_kinds, scalar_char_kinds, scalar_char_empty);
}
