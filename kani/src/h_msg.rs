//! C14, bounded part (native execution only -- String building is out of CBMC's practical reach): the *text* of the
//! messages built by `JsonError` and `QueryParamError`.
//!  * `msg_paths`: every location of depth <= 3 over a pool of 6 steps x every error kind, both error types: the
//!    location description is the path rendered from the root (nothing at the root; query parameters without the leading
//!    dot), the message differs from the root's message only by that description, and it quotes the pieces the statement
//!    lists for its kind (value as JSON text, field, key/value + every alternative + suggestion only when close, lengths,
//!    detail message).
//!  * `msg_readback`: a composite derived type, every payload obtained from a valid document by one or two faults at any
//!    node: the message of `JsonError` is the one for the first report of the keep-going run, and the path read back from
//!    the message resolves in the payload to the very value the message quotes.
//! The deductive part of C14 (path rendering at every depth, containment of the pieces) is the Verus unit `messages`.
use crate::support::nd;
use crate::oblige;
use deserr::errors::helpers::did_you_mean;
use deserr::errors::json::{location_json_description, value_kinds_description_json};
use deserr::errors::query_params::location_query_param_description;
use deserr::errors::{JsonError, QueryParamError};
use deserr::{DeserializeError, Deserr, ErrorKind, IntoValue, MergeWithError, Value, ValueKind, ValuePointerRef};
use serde_json::{json, Value as J};
use std::collections::BTreeMap;
use std::ops::ControlFlow;

#[derive(Clone, Debug, PartialEq)]
pub enum St { K(&'static str), I(usize) }
// keys include the empty string and keys that are not identifier-like (a dot, a digit first): the rendering is defined for every key
const POOL: [St; 9] = [St::K("a"), St::K("b_c"), St::K("Zed9"), St::I(0), St::I(7), St::I(12), St::K(""), St::K("a.b"), St::K("0")];

/// the statement's rendering, written from the root forwards
pub fn ref_json(p: &[St]) -> String {
    let mut s = String::new();
    for st in p { match st { St::K(k) => { s.push('.'); s.push_str(k); } St::I(i) => { s.push('['); s.push_str(&i.to_string()); s.push(']'); } } }
    s
}
pub fn ref_qp(p: &[St]) -> String {
    let s = ref_json(p);
    if let Some(St::K(_)) = p.first() { s[1..].to_string() } else { s }
}
fn with_path(steps: &[St], prev: ValuePointerRef, f: &mut dyn FnMut(ValuePointerRef)) {
    match steps.split_first() {
        None => f(prev),
        Some((St::K(k), rest)) => with_path(rest, prev.push_key(k), f),
        Some((St::I(i), rest)) => with_path(rest, prev.push_index(*i), f),
    }
}
fn msg_of<E: std::fmt::Display>(c: ControlFlow<E, E>) -> (String, bool) {
    match c { ControlFlow::Break(e) => (e.to_string(), true), ControlFlow::Continue(e) => (e.to_string(), false) }
}
/// `msg` is `root` with one ` article `path`` piece inserted
fn differs_only_by_location(msg: &str, root: &str, path: &str) -> bool {
    let quoted = format!("`{path}`");
    let Some(pos) = msg.find(&quoted) else { return false; };
    let tail = &msg[pos + quoted.len()..];
    if !root.ends_with(tail) { return false; }
    let head = &root[..root.len() - tail.len()];
    if !msg.starts_with(head) || head.len() > pos { return false; }
    let art = &msg[head.len()..pos];
    art.len() >= 3 && art.len() <= 20 && art.starts_with(' ') && art.ends_with(' ') && art.chars().all(|c| c == ' ' || c.is_ascii_lowercase())
}

/// received word and accepted list of the UnknownKey / UnknownValue choices: lists of 0, 1, 2, 3 and 5 alternatives
fn unknown_choice(variant: u8) -> (&'static str, &'static [&'static str]) {
    const ACC: [&str; 3] = ["color", "size", "weight"];
    const ACC2: [&str; 3] = ["Color", "filter", "maxHits"];
    match variant { 0 => ("colour", &ACC), 1 => ("zzzzzz", &ACC), 2 => ("Colour", &ACC2), 3 => ("FILTER", &ACC2), 4 => ("maxHist", &ACC2), 5 => ("cOLOR", &ACC2),
                    6 => ("colour", &[]), 7 => ("colour", &["color"]), 8 => ("zzzzzz", &["color", "size"]), _ => ("weigth", &["a", "b", "c", "d", "weight"]) }
}
/// the alternatives a message lists after "expected one of": the back-quoted pieces, in order
fn listed_alternatives(msg: &str) -> Option<Vec<String>> {
    let tail = &msg[msg.rfind("expected one of")? + "expected one of".len()..];
    let parts: Vec<&str> = tail.split('`').collect();
    if parts.len() % 2 == 0 { return None; }
    Some(parts.iter().enumerate().filter(|(i, _)| i % 2 == 1).map(|(_, p)| p.to_string()).collect())
}
fn kind_of_choice<'a>(k: u8, variant: u8, seq3: &'a [J; 3]) -> (ErrorKind<'a, J>, Vec<String>, Vec<String>) {
    // returns the report, the pieces the message must contain, the pieces it must not contain
    const KINDS: [ValueKind; 2] = [ValueKind::Integer, ValueKind::Map];
    match k {
        0 => {
            let actual: J = match variant { 0 => json!("x y"), 1 => json!(31), 2 => json!([1, "z"]), 3 => json!({"q": null}), 4 => json!(-4), 5 => json!(true), 6 => json!(2.5), 7 => J::Null,
                // strings that JSON text must escape: quotes / backslash, control characters, DEL, combining / zero-width / astral characters
                16 => json!(3.0), 17 => json!(-2.0), 18 => json!(1e16), 12 => json!(u64::MAX), 13 => json!(9223372036854775808u64), 14 => json!(i64::MIN), 15 => json!(false), 8 => json!("q\"b\\s"), 9 => json!("\u{0}\u{7}\u{8}\u{c}\u{1f}"), 10 => json!("a\u{7f}e\u{301}\u{200b}\u{1f980}"), _ => json!("l\n\r\t") };
            let text = if actual.is_null() { "null".to_string() } else { format!("`{}`", serde_json::to_string(&actual).unwrap()) };
            (ErrorKind::IncorrectValueKind { actual: actual.into_value(), accepted: &KINDS }, vec![text, value_kinds_description_json(&KINDS)], vec![])
        }
        1 => (ErrorKind::MissingField { field: "fld" }, vec!["`fld`".into()], vec![]),
        2 | 3 => {
            // received words: close / far from every alternative, all-lowercase and mixed case (a suggestion must be exactly what
            // `did_you_mean` computes for the received text as written -- C18 decides that function)
            let (word, acc) = unknown_choice(variant);
            let mut must: Vec<String> = vec![format!("`{word}`")];
            for a in acc { must.push(format!("`{a}`")); }
            let mut not = vec![];
            let sugg = did_you_mean(word, acc);
            if sugg.is_empty() { not.push("did you mean".to_string()); } else { must.push(sugg.trim().to_string()); }
            if variant == 0 { must.push("did you mean `color`?".into()); }
            if variant == 1 || variant == 3 { not.push("did you mean".to_string()); }
            if k == 2 { (ErrorKind::UnknownKey { key: word, accepted: acc }, must, not) } else { (ErrorKind::UnknownValue { value: word, accepted: acc }, must, not) }
        }
        4 => (ErrorKind::BadSequenceLen { actual: seq3.to_vec(), expected: 45 }, vec!["3".into(), "45".into(), "`[1,\"w\",null]`".into()], vec![]),
        _ => (ErrorKind::Unexpected { msg: "detail-msg".to_string() }, vec!["detail-msg".into()], vec![]),
    }
}

/// every location of depth <= 3 over the pool x every kind, both error types
pub fn msg_paths() {
    let depth = nd::below(4) as usize;
    let mut steps = Vec::new();
    for _ in 0..depth { steps.push(POOL[nd::below(9) as usize].clone()); }
    let k = nd::below(6);
    let variant = if k == 0 { nd::below(19) } else if k == 2 || k == 3 { nd::below(10) } else { 0 };
    let seq3 = [json!(1), json!("w"), J::Null];
    let (rj, rq) = (ref_json(&steps), ref_qp(&steps));
    let root_json = msg_of(JsonError::error::<J>(None, kind_of_choice(k, variant, &seq3).0, ValuePointerRef::Origin)).0;
    let root_qp = msg_of(QueryParamError::error::<J>(None, kind_of_choice(k, variant, &seq3).0, ValuePointerRef::Origin)).0;
    with_path(&steps, ValuePointerRef::Origin, &mut |loc| {
        let dj = location_json_description(loc, " at");
        let dq = location_query_param_description(loc, " for parameter");
        oblige!(dj == if steps.is_empty() { String::new() } else { format!(" at `{rj}`") }, "C14:json_location_is_the_path_rendered_from_the_root_and_nothing_at_the_root");
        oblige!(dq == if steps.is_empty() { String::new() } else { format!(" for parameter `{rq}`") }, "C14:query_param_location_is_the_path_without_the_leading_dot_and_nothing_at_the_root");
        let (kind, must, not) = kind_of_choice(k, variant, &seq3);
        let (mj, bj) = msg_of(JsonError::error::<J>(None, kind, loc));
        let (kind, must_q, not_q) = kind_of_choice(k, variant, &seq3);
        let (mq, bq) = msg_of(QueryParamError::error::<J>(None, kind, loc));
        oblige!(bj && bq, "C03,C14:built_in_error_types_always_break");
        if steps.is_empty() {
            oblige!(mj == root_json && mq == root_qp, "C14:message_is_a_function_of_report_and_location");
        } else {
            oblige!(differs_only_by_location(&mj, &root_json, &rj), "C14:json_message_contains_the_rendered_path");
            oblige!(differs_only_by_location(&mq, &root_qp, &rq), "C14:query_param_message_contains_the_rendered_path");
        }
        oblige!(must.iter().all(|p| mj.contains(p.as_str())) && not.iter().all(|p| !mj.contains(p.as_str())), "C14:json_message_quotes_the_pieces_of_its_kind");
        if k == 2 || k == 3 {
            let want: Vec<String> = unknown_choice(variant).1.iter().map(|a| a.to_string()).collect();
            oblige!(listed_alternatives(&mj).as_ref() == Some(&want) && listed_alternatives(&mq).as_ref() == Some(&want), "C14:message_lists_exactly_the_accepted_alternatives");
        }
        // query parameters describe the value in their own words for IncorrectValueKind (kind 0): only kinds 1.. are compared
        if k == 0 {
            // query parameters: a scalar is quoted as written (numbers in decimal, booleans, the raw string); containers are only named
            if let ErrorKind::IncorrectValueKind { actual, .. } = kind_of_choice(k, variant, &seq3).0 {
                let raw: Option<String> = match actual { deserr::Value::Boolean(b) => Some(b.to_string()), deserr::Value::Integer(x) => Some(x.to_string()), deserr::Value::NegativeInteger(x) => Some(x.to_string()),
                                                         deserr::Value::Float(x) => Some(x.to_string()), deserr::Value::String(x) => Some(x), _ => None };
                if let Some(raw) = raw { oblige!(mq.contains(&format!("`{raw}`")), "C14:query_param_message_quotes_the_received_scalar_as_written"); }
            }
        }
        if k != 0 {
            oblige!(must_q.iter().all(|p| mq.contains(p.as_str())) && not_q.iter().all(|p| !mq.contains(p.as_str())), "C14:query_param_message_quotes_the_pieces_of_its_kind");
        }
    });
}

// ---- end to end -----------------------------------------------------------------------------------------------------
#[derive(Deserr, Debug)]
#[deserr(deny_unknown_fields)]
pub struct Inner { pub id: u32, #[deserr(default)] pub tags: Vec<String> }
#[derive(Deserr, Debug)]
#[deserr(rename_all = camelCase)]
pub struct Outer {
    pub name: String,
    pub items: Vec<Inner>,
    pub by_key: BTreeMap<String, Vec<u8>>,
    #[deserr(default)]
    pub opt: Option<Inner>,
    pub pair: (bool, Inner),
}
fn valid_doc() -> J {
    json!({"name": "n", "items": [{"id": 1, "tags": ["t", "u"]}, {"id": 2}], "byKey": {"k1": [1, 2], "k2": []}, "opt": {"id": 3}, "pair": [true, {"id": 4}]})
}
/// all node positions of a document, parents first
fn positions(v: &J, here: &mut Vec<St2>, out: &mut Vec<Vec<St2>>) {
    out.push(here.clone());
    match v {
        J::Array(a) => for (i, x) in a.iter().enumerate() { here.push(St2::I(i)); positions(x, here, out); here.pop(); },
        J::Object(m) => for (k, x) in m.iter() { here.push(St2::K(k.clone())); positions(x, here, out); here.pop(); },
        _ => {}
    }
}
#[derive(Clone, Debug, PartialEq)]
pub enum St2 { K(String), I(usize) }
fn node_mut<'a>(v: &'a mut J, p: &[St2]) -> Option<&'a mut J> {
    let mut cur = v;
    for s in p { cur = match s { St2::K(k) => cur.as_object_mut()?.get_mut(k)?, St2::I(i) => cur.as_array_mut()?.get_mut(*i)? }; }
    Some(cur)
}
fn node<'a>(v: &'a J, p: &[St2]) -> Option<&'a J> {
    let mut cur = v;
    for s in p { cur = match s { St2::K(k) => cur.as_object()?.get(k)?, St2::I(i) => cur.as_array()?.get(*i)? }; }
    Some(cur)
}
fn render2(p: &[St2]) -> String {
    let mut s = String::new();
    for st in p { match st { St2::K(k) => { s.push('.'); s.push_str(k); } St2::I(i) => { s.push('['); s.push_str(&i.to_string()); s.push(']'); } } }
    s
}
/// parse `.key[3].k2` (keys over [A-Za-z0-9_]) back into steps
fn parse_path(s: &str) -> Option<Vec<St2>> {
    let b = s.as_bytes(); let mut i = 0; let mut out = Vec::new();
    while i < b.len() {
        if b[i] == b'.' {
            let st = i + 1; i = st;
            while i < b.len() && (b[i].is_ascii_alphanumeric() || b[i] == b'_') { i += 1; }
            if i == st { return None; }
            out.push(St2::K(s[st..i].to_string()));
        } else if b[i] == b'[' {
            let st = i + 1; i = st;
            while i < b.len() && b[i].is_ascii_digit() { i += 1; }
            if i == st || i >= b.len() || b[i] != b']' { return None; }
            out.push(St2::I(s[st..i].parse().ok()?)); i += 1;
        } else { return None; }
    }
    Some(out)
}
fn inject(doc: &mut J) -> bool {
    let mut ps = Vec::new(); positions(doc, &mut Vec::new(), &mut ps);
    let at = ps[nd::below(ps.len() as u8) as usize].clone();
    let Some(n) = node_mut(doc, &at) else { return false; };
    match nd::below(4) {
        0 => { *n = match nd::below(9) { 0 => J::Null, 1 => json!(true), 2 => json!(5), 3 => json!(-5), 4 => json!(1.5), 5 => json!("s"), 6 => json!([]), 7 => json!({}), _ => json!(300) }; true }
        1 => match n { J::Object(m) => { let k = m.keys().next().cloned(); if let Some(k) = k { m.remove(&k); true } else { false } } _ => false },
        2 => match n { J::Object(m) => { m.insert("zzz".into(), json!(1)); true } _ => false },
        _ => match n { J::Array(a) => { if nd::bool() { a.push(json!(9)); } else if a.pop().is_none() { return false; } true } _ => false },
    }
}
/// keep-going recorder
#[derive(Debug, Default)]
pub struct Log(pub Vec<(String, u8, String)>);
impl MergeWithError<Log> for Log {
    fn merge(s: Option<Self>, mut other: Log, _l: ValuePointerRef) -> ControlFlow<Self, Self> {
        let mut s = s.unwrap_or_default(); s.0.append(&mut other.0); ControlFlow::Continue(s)
    }
}
impl DeserializeError for Log {
    fn error<V: IntoValue>(s: Option<Self>, e: ErrorKind<V>, l: ValuePointerRef) -> ControlFlow<Self, Self> {
        let mut s = s.unwrap_or_default();
        fn walk(l: ValuePointerRef, out: &mut Vec<St2>) {
            match l { ValuePointerRef::Origin => {}, ValuePointerRef::Key { key, prev } => { walk(*prev, out); out.push(St2::K(key.to_string())); } ValuePointerRef::Index { index, prev } => { walk(*prev, out); out.push(St2::I(index)); } }
        }
        let mut steps: Vec<St2> = Vec::new(); walk(l, &mut steps);
        let (k, piece) = match e {
            ErrorKind::IncorrectValueKind { actual, .. } => (0u8, serde_json::to_string(&J::from(actual)).unwrap()),
            ErrorKind::MissingField { field } => (1, field.to_string()),
            ErrorKind::UnknownKey { key, .. } => (2, key.to_string()),
            ErrorKind::UnknownValue { value, .. } => (3, value.to_string()),
            ErrorKind::BadSequenceLen { actual, expected } => { use deserr::Sequence; (4, format!("{} {}", actual.len(), expected)) }
            ErrorKind::Unexpected { msg } => (5, msg),
        };
        s.0.push((render2(&steps), k, piece));
        ControlFlow::Continue(s)
    }
}
pub fn msg_readback() {
    let mut doc = valid_doc();
    if !inject(&mut doc) { nd::assume(false); return; }
    if nd::bool() { if !inject(&mut doc) { nd::assume(false); return; } }
    let fast: Result<Outer, JsonError> = deserr::deserialize(doc.clone());
    let slow: Result<Outer, Log> = deserr::deserialize(doc.clone());
    let (msg, log) = match (fast, slow) {
        (Ok(_), Ok(_)) => { nd::assume(false); return; }
        (Err(m), Err(l)) => (m.to_string(), l.0),
        _ => { oblige!(false, "C03,C14:message_describes_the_first_report_of_the_keep_going_run"); return; }
    };
    let (path, kind, piece) = log[0].clone();
    // the location quoted by the message: the first backticked piece that follows a word and a space and reads as a path
    // (wording-independent: any article will do); none => the root
    let mut back: Vec<St2> = Vec::new();
    {
        let bytes = msg.as_bytes(); let mut i = 0;
        while i < bytes.len() {
            if bytes[i] == b'`' {
                let en = msg[i + 1..].find('`').map(|e| i + 1 + e).unwrap_or(msg.len());
                let seg = &msg[i + 1..en];
                let after_word = i >= 2 && bytes[i - 1] == b' ' && bytes[i - 2].is_ascii_alphabetic();
                if after_word && (seg.starts_with('.') || seg.starts_with('[')) { if let Some(p) = parse_path(seg) { back = p; break; } }
                i = en + 1;
            } else { i += 1; }
        }
    }
    // the message names the place of the first report ...
    oblige!(render2(&back) == path, "C14:message_describes_the_first_report_of_the_keep_going_run");
    // ... and that path resolves in the payload to the value the message quotes
    let Some(target) = node(&doc, &back) else { oblige!(false, "C14:path_read_back_resolves_to_the_quoted_value"); return; };
    match kind {
        0 => {
            let quoted_value: Option<J> = if target.is_null() && msg.contains("null") { Some(J::Null) } else { msg.strip_suffix('`').and_then(|m| m.rfind('`').map(|i| &m[i + 1..])).and_then(|t| serde_json::from_str(t).ok()) };
            oblige!(quoted_value.as_ref() == Some(target) && serde_json::to_string(target).unwrap() == piece, "C14:path_read_back_resolves_to_the_quoted_value");
        }
        1 => { oblige!(target.as_object().map_or(false, |m| !m.contains_key(&piece)) && msg.contains(&format!("`{piece}`")), "C14:path_read_back_resolves_to_the_quoted_value"); }
        2 => { oblige!(target.as_object().map_or(false, |m| m.contains_key(&piece)) && msg.contains(&format!("`{piece}`")), "C14:path_read_back_resolves_to_the_quoted_value"); }
        4 => {
            let arr = target.as_array();
            oblige!(arr.map_or(false, |a| piece.starts_with(&format!("{} ", a.len())) && msg.contains(&a.len().to_string())) && msg.contains(&format!("`{}`", serde_json::to_string(target).unwrap())),
                    "C14:path_read_back_resolves_to_the_quoted_value");
        }
        _ => { oblige!(msg.contains(&piece) || kind == 3, "C14:path_read_back_resolves_to_the_quoted_value"); }
    }
}


// ---- a wide struct (22 fields, one skipped in the middle, one renamed): declaration order of the accepted list, every field
// ---- from its own key (slice sorts switch algorithm above 20 elements) -- native execution only ---------------------------------
#[derive(Debug, Default, Clone, Copy, PartialEq)]
pub struct Wide(pub u64);
impl<E: DeserializeError> Deserr<E> for Wide {
    fn deserialize_from_value<V: IntoValue>(value: Value<V>, location: ValuePointerRef) -> Result<Self, E> {
        match value { Value::Integer(x) => Ok(Wide(x)), _ => Err(deserr::take_cf_content(E::error::<V>(None, ErrorKind::Unexpected { msg: String::new() }, location))) }
    }
}
#[derive(Deserr, Debug)]
#[deserr(deny_unknown_fields)]
pub struct Big22 {
    pub f00: Wide,
    pub f01: Wide,
    pub f02: Wide,
    pub f03: Wide,
    pub f04: Wide,
    pub f05: Wide,
    pub f06: Wide,
    pub f07: Wide,
    #[deserr(skip)]
    pub f08: Wide,
    pub f09: Wide,
    pub f10: Wide,
    #[deserr(rename = "r11x")]
    pub f11: Wide,
    pub f12: Wide,
    pub f13: Wide,
    pub f14: Wide,
    pub f15: Wide,
    pub f16: Wide,
    pub f17: Wide,
    pub f18: Wide,
    pub f19: Wide,
    pub f20: Wide,
    pub f21: Wide,
}
/// keep-going recorder of (kind, key-or-field, accepted list, location depth)
#[derive(Debug, Default)]
pub struct Acc(pub Vec<(u8, String, Vec<String>, usize)>);
impl MergeWithError<Acc> for Acc {
    fn merge(s: Option<Self>, mut other: Acc, _l: ValuePointerRef) -> ControlFlow<Self, Self> { let mut s = s.unwrap_or_default(); s.0.append(&mut other.0); ControlFlow::Continue(s) }
}
impl DeserializeError for Acc {
    fn error<V: IntoValue>(s: Option<Self>, e: ErrorKind<V>, l: ValuePointerRef) -> ControlFlow<Self, Self> {
        let mut s = s.unwrap_or_default();
        let mut depth = 0; let mut cur = l; loop { match cur { ValuePointerRef::Origin => break, ValuePointerRef::Key { prev, .. } => { depth += 1; cur = *prev; } ValuePointerRef::Index { prev, .. } => { depth += 1; cur = *prev; } } }
        s.0.push(match e {
            ErrorKind::MissingField { field } => (1, field.to_string(), vec![], depth),
            ErrorKind::UnknownKey { key, accepted } => (2, key.to_string(), accepted.iter().map(|a| a.to_string()).collect(), depth),
            ErrorKind::Unexpected { .. } => (5, String::new(), vec![], depth),
            _ => (0, String::new(), vec![], depth),
        });
        ControlFlow::Continue(s)
    }
}
pub fn derive_big22() {
    let key_of = |i: usize| -> String { if i == 11 { "r11x".to_string() } else { format!("f{i:02}") } };
    let expected_accepted: Vec<String> = (0..22).filter(|i| *i != 8).map(key_of).collect();
    let mut m = serde_json::Map::new();
    let missing = nd::below(23) as usize;          // 22 = nothing missing
    for i in 0..22 { if i != 8 && i != missing { m.insert(key_of(i), json!(100 + i as u64)); } }
    let unknown: Option<&str> = match nd::below(4) { 0 => None, 1 => Some("zzzz"), 2 => Some("f08"), _ => Some("f11") };
    if let Some(k) = unknown { m.insert(k.to_string(), json!(7)); }
    let r: Result<Big22, Acc> = deserr::deserialize(J::Object(m));
    let expect_missing = missing < 22 && missing != 8;
    match r {
        Ok(v) => {
            oblige!(unknown.is_none() && !expect_missing, "C02,C08,C09:ok_only_without_unknown_keys_and_missing_fields");
            let got = [v.f00, v.f01, v.f02, v.f03, v.f04, v.f05, v.f06, v.f07, v.f08, v.f09, v.f10, v.f11, v.f12, v.f13, v.f14, v.f15, v.f16, v.f17, v.f18, v.f19, v.f20, v.f21];
            oblige!((0..22).all(|i| got[i] == if i == 8 { Wide(0) } else { Wide(100 + i as u64) }), "C07,C08:every_field_from_its_effective_key_and_the_skipped_one_from_its_default");
        }
        Err(Acc(log)) => {
            oblige!(unknown.is_some() || expect_missing, "C02:fails_only_if_the_payload_has_a_fault");
            let unk: Vec<_> = log.iter().filter(|e| e.0 == 2).collect();
            let mis: Vec<_> = log.iter().filter(|e| e.0 == 1).collect();
            oblige!(unk.len() == unknown.is_some() as usize && unk.iter().all(|e| Some(e.1.as_str()) == unknown && e.3 == 0), "C04,C09:each_unknown_key_reported_once_at_the_container");
            oblige!(unk.iter().all(|e| e.2 == expected_accepted), "C07,C09:accepted_list_is_the_effective_keys_of_the_non_skipped_fields_in_declaration_order");
            oblige!(mis.len() == expect_missing as usize && mis.iter().all(|e| e.1 == key_of(missing) && e.3 == 0), "C04,C07,C08:missing_report_names_the_effective_key_once_at_the_container");
            oblige!(log.len() == unk.len() + mis.len(), "C02:no_other_report");
        }
    }
}


// ---- derived structs nested in std containers: the location of a missing / unknown / invalid report inside element i of a
// ---- Vec, entry k of a map, the content of an Option -- under a keep-going error type, with faults in several elements -------
#[derive(Deserr, Debug)]
#[deserr(deny_unknown_fields)]
pub struct Elem { pub a: Wide, #[deserr(rename = "bee")] pub b: Wide }
#[derive(Deserr, Debug)]
pub struct Holder { pub items: Vec<Elem>, pub byk: BTreeMap<String, Elem>, #[deserr(default)] pub opt: Option<Elem> }
/// keep-going recorder of (kind, name, rendered location)
#[derive(Debug, Default)]
pub struct LocLog(pub Vec<(u8, String, String)>);
impl MergeWithError<LocLog> for LocLog {
    fn merge(s: Option<Self>, mut other: LocLog, _l: ValuePointerRef) -> ControlFlow<Self, Self> { let mut s = s.unwrap_or_default(); s.0.append(&mut other.0); ControlFlow::Continue(s) }
}
impl DeserializeError for LocLog {
    fn error<V: IntoValue>(s: Option<Self>, e: ErrorKind<V>, l: ValuePointerRef) -> ControlFlow<Self, Self> {
        let mut s = s.unwrap_or_default();
        fn walk(l: ValuePointerRef, out: &mut String) {
            match l { ValuePointerRef::Origin => {}, ValuePointerRef::Key { key, prev } => { walk(*prev, out); out.push('.'); out.push_str(key); } ValuePointerRef::Index { index, prev } => { walk(*prev, out); out.push_str(&format!("[{index}]")); } }
        }
        let mut path = String::new(); walk(l, &mut path);
        s.0.push(match e {
            ErrorKind::MissingField { field } => (1, field.to_string(), path),
            ErrorKind::UnknownKey { key, .. } => (2, key.to_string(), path),
            ErrorKind::Unexpected { .. } => (5, String::new(), path),
            _ => (0, String::new(), path),
        });
        ControlFlow::Continue(s)
    }
}
/// one element: 0 = fine, 1 = `a` missing, 2 = `bee` missing, 3 = `a` invalid, 4 = an unknown key, 5 = both missing
fn elem_doc(shape: u8, at: &str, want: &mut Vec<(u8, String, String)>) -> J {
    match shape {
        0 => json!({"a": 1, "bee": 2}),
        1 => { want.push((1, "a".into(), at.into())); json!({"bee": 2}) }
        2 => { want.push((1, "bee".into(), at.into())); json!({"a": 1}) }
        3 => { want.push((5, String::new(), format!("{at}.a"))); json!({"a": "x", "bee": 2}) }
        4 => { want.push((2, "zz".into(), at.into())); json!({"a": 1, "bee": 2, "zz": 0}) }
        _ => { want.push((1, "a".into(), at.into())); want.push((1, "bee".into(), at.into())); json!({}) }
    }
}
pub fn derive_nested_in_containers() {
    let mut want: Vec<(u8, String, String)> = Vec::new();
    let n = 1 + nd::below(3) as usize;
    let mut items = Vec::new();
    for i in 0..n { items.push(elem_doc(nd::below(6), &format!(".items[{i}]"), &mut want)); }
    let mut byk = serde_json::Map::new();
    for k in ["k1", "k2"] { byk.insert(k.to_string(), elem_doc(nd::below(6), &format!(".byk.{k}"), &mut want)); }
    let mut doc = serde_json::Map::new();
    doc.insert("items".into(), J::Array(items)); doc.insert("byk".into(), J::Object(byk));
    match nd::below(3) { 0 => {}, 1 => { doc.insert("opt".into(), J::Null); } _ => { doc.insert("opt".into(), elem_doc(1 + nd::below(5), ".opt", &mut want)); } }
    // serde_json enumerates object members in key order: byk, items, opt -- and inside an element: a, bee, zz; the unknown key and the
    // invalid value are reported in that order, the missing fields after them, so sort both sides (the property here is about
    // *which* reports are made and *where*, their order is C02's business)
    let r: Result<Holder, LocLog> = deserr::deserialize(J::Object(doc));
    let mut got = match r { Ok(_) => Vec::new(), Err(LocLog(l)) => l };
    got.sort(); want.sort();
    oblige!(got == want, "C02,C04,C08,C09:reports_inside_nested_containers_name_the_element_they_belong_to");
}

pub fn registry() -> Vec<(&'static str, crate::Body)> {
    vec![("msg_paths", msg_paths as crate::Body), ("msg_readback", msg_readback), ("derive_big22", derive_big22), ("derive_nested_in_containers", derive_nested_in_containers)]
}
