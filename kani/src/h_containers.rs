//! Bounded harnesses for the std container impls.  The unbounded argument for these impls is the Verus unit `impls`;
//! these bodies exist (a) to produce a concrete, replayable failing input when a Verus obligation fails, and (b) to
//! decide what Verus does not model: the *contents* of sets and maps (C06).  They are run by exhaustive native
//! execution of their decision tree (`replay --enumerate`).  BOUNDED: sequences / objects of at most 3 members.
#![allow(static_mut_refs)]
use crate::support::{arena::{self, *}, leaf::{self, Leaf}, nd, rec::{self, *}, reference::{self, *}};
use crate::h_derive::{any_val, eq_slots, judge_nocover, lv, ov, reset_all, Viewed};
use crate::{oblige, reach};
use deserr::{Deserr, ValuePointerRef};
use std::collections::{BTreeMap, BTreeSet, HashMap, HashSet};

pub static D_CONT: [&str; 5] = ["1", "2", "x", "300", "k"];

fn fill_seq(max: u8) -> u8 { let n = nd::below(max + 1); let mut i = 0; while i < n { put(i, any_val()); i += 1; } n }
fn seq_or_scalar(max: u8) -> Node { if nd::below(4) == 0 { any_val() } else { Node::Seq(0, fill_seq(max)) } }

/// keep-going run of a sequence of Leaf at `p` (None = some element faulty), pushing events
fn leaves_spec(start: u8, len: u8, p: Path, ex: &mut Expect, out: &mut [u64; MAXF]) -> bool {
    let mut ok = true; let mut i = 0u8;
    while i < len {
        match arena::node(start + i) { Node::Int(x) => { if (i as usize) < MAXF { out[i as usize] = leaf_view(x); } }
            _ => { ex.log.push(report(K_UNEXPECTED, p.idx(i as usize), 0, 0)); ex.log.push(handover(p.idx(i as usize))); ok = false; } }
        i += 1;
    }
    ok
}
impl Viewed for Vec<Leaf> { fn slots(&self) -> [u64; MAXF] { let mut s = [0u64; MAXF]; let mut i = 0; while i < self.len() && i < MAXF { s[i] = lv(&self[i]); i += 1; } s[MAXF - 1] = self.len() as u64; s } }
pub fn cont_vec() {
    reset_all(&D_CONT);
    let n = seq_or_scalar(3);
    let o = ValuePointerRef::Origin; let l = o.push_index(1); let p = Path::ROOT.idx(1);
    let r = <Vec<Leaf> as Deserr<Rec>>::deserialize_from_value::<KV>(to_value(n), l);
    let mut ex = Expect::EMPTY;
    match n { Node::Seq(s, len) => { let mut v = [0u64; MAXF]; if leaves_spec(s, len, p, &mut ex, &mut v) { v[MAXF - 1] = len as u64; ex.view = v; } } other => { ex.log.push(kind_report(p, other, 64, 1)); } }
    match &r { Ok(v) => { oblige!(ex.log.n != 0 || eq_slots(&v.slots(), &ex.view), "C06:element_i_comes_from_payload_element_i"); } _ => {} }
    judge_nocover(r, &ex, &p);
}
impl Viewed for [Leaf; 2] { fn slots(&self) -> [u64; MAXF] { [lv(&self[0]), lv(&self[1]), 0, 0, 0, 0] } }
pub fn cont_array2() {
    reset_all(&D_CONT);
    let n = seq_or_scalar(3);
    let o = ValuePointerRef::Origin; let l = o.push_index(1); let p = Path::ROOT.idx(1);
    let r = <[Leaf; 2] as Deserr<Rec>>::deserialize_from_value::<KV>(to_value(n), l);
    let mut ex = Expect::EMPTY;
    match n {
        Node::Seq(s, len) => { if len != 2 { ex.log.push(report(K_BADLEN, p, (len as u32 & 15) | (2 << 4), 0)); } else { let mut v = [0u64; MAXF]; if leaves_spec(s, len, p, &mut ex, &mut v) { ex.view = v; } } }
        other => { ex.log.push(kind_report(p, other, 64, 1)); }
    }
    match &r { Ok(v) => { oblige!(matches!(n, Node::Seq(_, 2)), "C06:ok_only_for_a_sequence_of_exactly_the_arity"); oblige!(ex.log.n != 0 || eq_slots(&v.slots(), &ex.view), "C06:element_i_comes_from_payload_element_i"); }
               Err(e) => { oblige!(ex.log.n == 0 || ex.log.ev[0].kind() != K_BADLEN || (e.n >= 1 && e.ev[0].unstopped() == ex.log.ev[0]), "C06:wrong_arity_reports_the_whole_sequence_and_the_expected_length"); } }
    judge_nocover(r, &ex, &p);
}
impl Viewed for (Leaf, Option<Leaf>) { fn slots(&self) -> [u64; MAXF] { [lv(&self.0), ov(&self.1), 0, 0, 0, 0] } }
impl Viewed for (Leaf, Option<Leaf>, Leaf) { fn slots(&self) -> [u64; MAXF] { [lv(&self.0), ov(&self.1), lv(&self.2), 0, 0, 0] } }
fn tuple_spec(n: Node, arity: u8, p: Path, ex: &mut Expect) {
    match n {
        Node::Seq(s, len) => {
            if len != arity { ex.log.push(report(K_BADLEN, p, (len as u32 & 15) | ((arity as u32) << 4), 0)); return; }
            let mut v = [0u64; MAXF]; let mut ok = true; let mut i = 0u8;
            while i < len {
                let nd_ = arena::node(s + i);
                // component 1 is Option<Leaf>: null is fine
                let good = match nd_ { Node::Int(x) => { v[i as usize] = leaf_view(x); true } Node::Null if i == 1 => { v[1] = 0; true } _ => false };
                if !good { ex.log.push(report(K_UNEXPECTED, p.idx(i as usize), 0, 0)); ex.log.push(handover(p.idx(i as usize))); ok = false; }
                i += 1;
            }
            if ok { ex.view = v; }
        }
        other => { ex.log.push(kind_report(p, other, 64, 1)); }
    }
}
pub fn cont_tuple2() {
    reset_all(&D_CONT);
    let n = seq_or_scalar(3);
    let o = ValuePointerRef::Origin; let l = o.push_index(1); let p = Path::ROOT.idx(1);
    let r = <(Leaf, Option<Leaf>) as Deserr<Rec>>::deserialize_from_value::<KV>(to_value(n), l);
    let mut ex = Expect::EMPTY; tuple_spec(n, 2, p, &mut ex);
    match &r { Ok(v) => { oblige!(matches!(n, Node::Seq(_, 2)), "C06:ok_only_for_a_sequence_of_exactly_the_arity"); oblige!(ex.log.n != 0 || eq_slots(&v.slots(), &ex.view), "C06:element_i_comes_from_payload_element_i"); } _ => {} }
    judge_nocover(r, &ex, &p);
}
pub fn cont_tuple3() {
    reset_all(&D_CONT);
    let n = if nd::below(6) == 0 { any_val() } else { let k = nd::below(5); let mut i = 0; while i < k { put(i, any_val()); i += 1; } Node::Seq(0, k) };
    let o = ValuePointerRef::Origin; let l = o.push_index(1); let p = Path::ROOT.idx(1);
    let r = <(Leaf, Option<Leaf>, Leaf) as Deserr<Rec>>::deserialize_from_value::<KV>(to_value(n), l);
    let mut ex = Expect::EMPTY; tuple_spec(n, 3, p, &mut ex);
    match &r { Ok(v) => { oblige!(matches!(n, Node::Seq(_, 3)), "C06:ok_only_for_a_sequence_of_exactly_the_arity"); oblige!(ex.log.n != 0 || eq_slots(&v.slots(), &ex.view), "C06:element_i_comes_from_payload_element_i"); } _ => {} }
    judge_nocover(r, &ex, &p);
}
impl Viewed for Option<Box<Leaf>> { fn slots(&self) -> [u64; MAXF] { [match self { Some(b) => lv(b), None => 0 }, 0, 0, 0, 0, 0] } }
pub fn cont_option_box() {
    reset_all(&D_CONT);
    let n = any_val();
    let o = ValuePointerRef::Origin; let l = o.push_index(1); let p = Path::ROOT.idx(1);
    let r = <Option<Box<Leaf>> as Deserr<Rec>>::deserialize_from_value::<KV>(to_value(n), l);
    let mut ex = Expect::EMPTY;
    match n { Node::Null => {} Node::Int(x) => { ex.view[0] = leaf_view(x); } _ => { ex.log.push(report(K_UNEXPECTED, p, 0, 0)); } }
    match &r { Ok(v) => { oblige!(ex.log.n != 0 || (v.is_none() == matches!(n, Node::Null) && eq_slots(&v.slots(), &ex.view)), "C06:none_exactly_for_null_otherwise_the_content"); } _ => {} }
    judge_nocover(r, &ex, &p);
}
/// u8 elements (real scalar impl): Integer <= 255 accepted
fn u8_spec(n: Node, p: Path, ex: &mut Expect) -> Option<u8> {
    match n { Node::Int(x) if x <= 255 => Some(x as u8), Node::Int(_) => { ex.log.push(report(K_UNEXPECTED, p, 0, 0)); None } other => { ex.log.push(kind_report(p, other, 4, 1)); None } }
}
fn any_u8ish() -> Node { match nd::below(4) { 0 => Node::Int(nd::below(3) as u64), 1 => Node::Int(300), 2 => Node::Null, _ => Node::Int(7) } }
pub fn cont_sets() {
    reset_all(&D_CONT);
    let len = nd::below(4); let mut i = 0; while i < len { put(i, any_u8ish()); i += 1; }
    let n = Node::Seq(0, len);
    let o = ValuePointerRef::Origin; let l = o.push_index(1); let p = Path::ROOT.idx(1);
    let mut ex = Expect::EMPTY; let mut want: BTreeSet<u8> = BTreeSet::new();
    i = 0; while i < len { let before = ex.log.n; match u8_spec(arena::node(i), p.idx(i as usize), &mut ex) { Some(v) => { want.insert(v); } None => {} } if ex.log.n != before { ex.log.push(handover(p.idx(i as usize))); } i += 1; }
    let r = <BTreeSet<u8> as Deserr<Rec>>::deserialize_from_value::<KV>(to_value(n), l);
    match r { Ok(s) => { oblige!(ex.log.n == 0 && s == want, "C06:set_equals_the_set_of_payload_elements"); oblige!(rec::calls() == 0, "C01:ok_only_if_nothing_reported"); }
              Err(e) => { oblige!(ex.log.n > 0 && e.same(&rec::global()) && agree_until_stop(&e, &ex.log) && (!no_stop(&e) || e.n == ex.log.n) && stop_then_handover(&e) && stop_then_handover(&rec::global()), "C01,C02,C03,C04:set_reports") } }
    rec::reset();
    let r = <HashSet<u8> as Deserr<Rec>>::deserialize_from_value::<KV>(to_value(n), l);
    match r { Ok(s) => { oblige!(ex.log.n == 0 && s.len() == want.len() && want.iter().all(|x| s.contains(x)), "C06:set_equals_the_set_of_payload_elements"); }
              Err(e) => { oblige!(ex.log.n > 0 && e.same(&rec::global()) && agree_until_stop(&e, &ex.log) && (!no_stop(&e) || e.n == ex.log.n) && stop_then_handover(&e) && stop_then_handover(&rec::global()), "C01,C02,C03,C04:set_reports") } }
}
/// map targets keyed by the parsed form of the string key: u8 keys from a dictionary with unparsable words
pub fn cont_maps() {
    reset_all(&D_CONT);
    let len = nd::below(4); let mut i = 0; while i < len { put_entry(i, nd::below(4), any_val()); i += 1; }
    let n = Node::Map(0, len);
    let o = ValuePointerRef::Origin; let l = o.push_index(1); let p = Path::ROOT.idx(1);
    let mut ex = Expect::EMPTY; let mut want: BTreeMap<u8, u64> = BTreeMap::new();
    i = 0;
    while i < len {
        let k = arena::key(i);
        match D_CONT[k as usize].parse::<u8>() {
            Err(_) => { ex.log.push(report(K_UNEXPECTED, p, 0, 0)); }     // names that key in its message; located at the map
            Ok(kk) => match arena::node(i) { Node::Int(x) => { want.insert(kk, leaf_view(x)); } _ => { ex.log.push(report(K_UNEXPECTED, p.key(k), 0, 0)); ex.log.push(handover(p.key(k))); } },
        }
        i += 1;
    }
    let r = <BTreeMap<u8, Leaf> as Deserr<Rec>>::deserialize_from_value::<KV>(to_value(n), l);
    match r { Ok(m) => { oblige!(ex.log.n == 0 && m.len() == want.len() && m.iter().all(|(k, v)| want.get(k) == Some(&lv(v))), "C06:map_keys_each_entry_by_the_parsed_key"); oblige!(rec::calls() == 0, "C01:ok_only_if_nothing_reported"); }
              Err(e) => { oblige!(ex.log.n > 0, "C06:unparsable_key_or_faulty_value_fails_the_call"); oblige!(e.same(&rec::global()) && agree_until_stop(&e, &ex.log) && (!no_stop(&e) || e.n == ex.log.n) && stop_then_handover(&e) && stop_then_handover(&rec::global()), "C01,C02,C03,C04:map_reports") } }
    rec::reset();
    let r = <HashMap<u8, Leaf> as Deserr<Rec>>::deserialize_from_value::<KV>(to_value(n), l);
    match r { Ok(m) => { oblige!(ex.log.n == 0 && m.len() == want.len() && m.iter().all(|(k, v)| want.get(k) == Some(&lv(v))), "C06:map_keys_each_entry_by_the_parsed_key"); }
              Err(e) => { oblige!(ex.log.n > 0, "C06:unparsable_key_or_faulty_value_fails_the_call"); oblige!(e.same(&rec::global()) && agree_until_stop(&e, &ex.log) && (!no_stop(&e) || e.n == ex.log.n) && stop_then_handover(&e) && stop_then_handover(&rec::global()), "C01,C02,C03,C04:map_reports") } }
}


/// C15 for the std map targets: three entries with distinct keys in all six orders, keep-going error type: same map, same
/// multiset of reports (native execution only)
pub fn order_maps_3() {
    const PERMS: [[usize; 3]; 6] = [[0, 1, 2], [0, 2, 1], [1, 0, 2], [1, 2, 0], [2, 0, 1], [2, 1, 0]];
    let k = [nd::below(4), nd::below(4), nd::below(4)];
    nd::assume(k[0] != k[1] && k[0] != k[2] && k[1] != k[2]);
    let v = [any_val(), any_val(), any_val()];
    let o = ValuePointerRef::Origin; let l = o.push_index(1);
    let run_b = |p: &[usize; 3]| { reset_all(&D_CONT); rec::set_policy(1); let mut i = 0; while i < 3 { put_entry(i as u8, k[p[i]], v[p[i]]); i += 1; } <BTreeMap<u8, Leaf> as Deserr<Rec>>::deserialize_from_value::<KV>(to_value(Node::Map(0, 3)), l) };
    let run_h = |p: &[usize; 3]| { reset_all(&D_CONT); rec::set_policy(1); let mut i = 0; while i < 3 { put_entry(i as u8, k[p[i]], v[p[i]]); i += 1; } <HashMap<u8, Leaf> as Deserr<Rec>>::deserialize_from_value::<KV>(to_value(Node::Map(0, 3)), l) };
    let (fb, fh) = (run_b(&PERMS[0]), run_h(&PERMS[0]));
    let mut q = 1;
    while q < 6 {
        match (&fb, &run_b(&PERMS[q])) {
            (Ok(a), Ok(b)) => { oblige!(a.len() == b.len() && a.iter().all(|(k, x)| b.get(k).map(lv) == Some(lv(x))), "C15:same_value_for_both_member_orders"); }
            (Err(a), Err(b)) => { oblige!(crate::h_derive::same_multiset(a, b), "C15:same_set_of_reports_for_both_member_orders"); }
            _ => { oblige!(false, "C15:same_outcome_for_both_member_orders"); }
        }
        match (&fh, &run_h(&PERMS[q])) {
            (Ok(a), Ok(b)) => { oblige!(a.len() == b.len() && a.iter().all(|(k, x)| b.get(k).map(lv) == Some(lv(x))), "C15:same_value_for_both_member_orders"); }
            (Err(a), Err(b)) => { oblige!(crate::h_derive::same_multiset(a, b), "C15:same_set_of_reports_for_both_member_orders"); }
            _ => { oblige!(false, "C15:same_outcome_for_both_member_orders"); }
        }
        q += 1;
    }
}


// ---- comma-separated lists (src/serde_cs.rs): bounded companion of the Verus unit `cs` (native execution only) -------------
#[cfg(not(kani))]
pub fn cont_cs() {
    use serde_cs::vec::CS;
    use std::str::FromStr;
    const POOL: [&str; 8] = ["", "1", "1,2", "1,x", ",", "300", "7,8,9", " 1"];
    pub static D_CS: [&str; 1] = ["k"];
    reset_all(&D_CS);
    let o = ValuePointerRef::Origin; let l = o.push_index(1); let p = Path::ROOT.idx(1);
    let which = nd::below(10);
    let mut ex = Expect::EMPTY;
    let r: Result<CS<u8>, Rec> = if which < 8 {
        let s = POOL[which as usize];
        if CS::<u8>::from_str(s).is_err() { ex.log.push(report(K_UNEXPECTED, p, 0, 0)); }
        let r = <CS<u8> as Deserr<Rec>>::deserialize_from_value::<serde_json::Value>(deserr::Value::String(s.to_string()), l);
        if let (Ok(got), Ok(want)) = (&r, CS::<u8>::from_str(s)) { oblige!(got.0 == want.0, "C06:cs_list_is_what_from_str_yields"); }
        r
    } else {
        let n = if which == 8 { Node::Int(3) } else { Node::Seq(0, 0) };
        ex.log.push(kind_report(p, n, 32, 1));
        <CS<u8> as Deserr<Rec>>::deserialize_from_value::<KV>(to_value(n), l)
    };
    match &r {
        Ok(_) => { oblige!(ex.log.n == 0, "C01,C06:cs_ok_exactly_when_from_str_accepts"); oblige!(rec::calls() == 0, "C01:ok_only_if_nothing_reported"); }
        Err(e) => { oblige!(ex.log.n == 1 && e.n == 1 && rec::calls() == 1 && e.ev[0].unstopped() == ex.log.ev[0], "C01,C04,C06:cs_exactly_one_report_at_the_given_location"); }
    }
}
#[cfg(kani)]
pub fn cont_cs() {}


// ---- serde_json::Value as a *target* (src/serde_json.rs): bounded companion of the Verus unit `json_target` (native only) ----
/// keep-going run of `Deserr for serde_json::Value` over an arena payload: the only fault is a float JSON cannot hold
#[cfg(not(kani))]
fn jv_spec(n: Node, p: Path, ex: &mut Expect) -> Option<serde_json::Value> {
    use serde_json::Value as J;
    match n {
        Node::Null => Some(J::Null), Node::Bool(b) => Some(J::Bool(b)), Node::Int(x) => Some(J::from(x)), Node::Neg(x) => Some(J::from(x)),
        Node::Float(f) => match serde_json::Number::from_f64(f) { Some(nn) => Some(J::Number(nn)), None => { ex.log.push(report(K_UNEXPECTED, p, 0, 0)); None } },
        Node::Str(k) => Some(J::String(arena::key_string(k))),
        Node::Seq(s, l) => {
            let mut out = Vec::new(); let mut ok = true; let mut i = 0u8;
            while i < l { let before = ex.log.n; match jv_spec(arena::node(s + i), p.idx(i as usize), ex) { Some(v) => out.push(v), None => { ok = false; } } if ex.log.n != before { ex.log.push(handover(p.idx(i as usize))); } i += 1; }
            if ok { Some(J::Array(out)) } else { None }
        }
        Node::Map(s, l) => {
            let mut out = serde_json::Map::new(); let mut ok = true; let mut i = 0u8;
            while i < l { let k = arena::key(s + i); let before = ex.log.n; match jv_spec(arena::node(s + i), p.key(k), ex) { Some(v) => { out.insert(arena::key_string(k), v); } None => { ok = false; } } if ex.log.n != before { ex.log.push(handover(p.key(k))); } i += 1; }
            if ok { Some(J::Object(out)) } else { None }
        }
    }
}
#[cfg(not(kani))]
pub fn cont_jvalue() {
    pub static D_JV: [&str; 3] = ["k", "l", "m"];
    reset_all(&D_JV);
    fn leaf() -> Node { match nd::below(5) { 0 => Node::Int(7), 1 => Node::Float(f64::NAN), 2 => Node::Float(1.5), 3 => Node::Null, _ => Node::Float(f64::INFINITY) } }
    // root: a sequence or a map of two members, each a leaf or a nested one-element sequence / map
    let mut i = 0u8;
    while i < 2 {
        let inner = 4 + i;
        put(inner, leaf());
        unsafe { arena::KEYS[inner as usize] = 2; }
        let n = match nd::below(3) { 0 => leaf(), 1 => Node::Seq(inner, 1), _ => Node::Map(inner, 1) };
        put_entry(i, i, n);
        i += 1;
    }
    let root = if nd::bool() { Node::Seq(0, 2) } else { Node::Map(0, 2) };
    let o = ValuePointerRef::Origin; let l = o.push_index(1); let p = Path::ROOT.idx(1);
    let mut ex = Expect::EMPTY;
    let want = jv_spec(root, p, &mut ex);
    let r = <serde_json::Value as Deserr<Rec>>::deserialize_from_value::<KV>(to_value(root), l);
    match r {
        Ok(v) => { oblige!(ex.log.n == 0, "C01,C02:ok_only_if_the_payload_has_no_fault"); oblige!(Some(&v) == want.as_ref(), "C13:deserr_impl_gives_back_the_same_document"); oblige!(rec::calls() == 0, "C01:ok_only_if_nothing_reported"); }
        Err(e) => {
            oblige!(ex.log.n > 0, "C02,C13:fails_only_if_the_payload_has_a_fault");
            oblige!(e.same(&rec::global()), "C01:returned_error_is_built_from_every_call");
            oblige!(agree_until_stop(&e, &ex.log), "C02,C03,C04:events_up_to_first_stop_equal_keep_going_run");
            oblige!(!no_stop(&e) || e.n == ex.log.n, "C01,C02:keep_going_run_is_complete");
            oblige!(stop_then_handover(&e) && stop_then_handover(&rec::global()), "C03:stop_ends_work");
            oblige!(all_under(&e, &p), "C04:every_event_under_the_given_location");
        }
    }
}
#[cfg(kani)]
pub fn cont_jvalue() {}

/// zero-sized element types -- `()` (Null only) and PhantomData (reads nothing, never reports) -- in Vec / HashSet / BTreeSet:
/// a container that sizes or skips its work by the element type's size cannot hide behind the Leaf / u8 elements of the other harnesses
pub fn cont_zst() {
    reset_all(&D_CONT);
    let len = nd::below(4); let mut i = 0; while i < len { put(i, match nd::below(3) { 0 => Node::Null, 1 => Node::Int(1), _ => Node::Bool(true) }); i += 1; }
    let n = Node::Seq(0, len);
    let o = ValuePointerRef::Origin; let l = o.push_index(1); let p = Path::ROOT.idx(1);
    let mut ex = Expect::EMPTY;
    i = 0; while i < len { match arena::node(i) { Node::Null => {} other => { ex.log.push(kind_report(p.idx(i as usize), other, 1, 1)); ex.log.push(handover(p.idx(i as usize))); } } i += 1; }
    macro_rules! go { ($t:ty, $want:expr) => {{
        rec::reset();
        let r = <$t as Deserr<Rec>>::deserialize_from_value::<KV>(to_value(n), l);
        match r { Ok(c) => { oblige!(ex.log.n == 0, "C01,C02:ok_only_if_the_payload_has_no_fault"); oblige!(c.len() == $want, "C06:nothing_dropped_nothing_invented"); oblige!(rec::calls() == 0, "C01:ok_only_if_nothing_reported"); }
                  Err(e) => { oblige!(ex.log.n > 0 && e.same(&rec::global()) && agree_until_stop(&e, &ex.log) && (!no_stop(&e) || e.n == ex.log.n) && stop_then_handover(&e) && stop_then_handover(&rec::global()), "C01,C02,C03,C04:zst_element_reports"); } }
    }}; }
    go!(Vec<()>, len as usize);
    go!(HashSet<()>, if len == 0 { 0 } else { 1 });
    go!(BTreeSet<()>, if len == 0 { 0 } else { 1 });
    rec::reset();
    let r = <Vec<std::marker::PhantomData<u8>> as Deserr<Rec>>::deserialize_from_value::<KV>(to_value(n), l);
    oblige!(matches!(&r, Ok(v) if v.len() == len as usize), "C06:nothing_dropped_nothing_invented");
    oblige!(rec::calls() == 0, "C01:ok_only_if_nothing_reported");
}

/// Option<T> for inner types that THEMSELVES accept null (Option<_>, (), PhantomData) and nested in a Vec: null is None at the
/// outermost Option, whatever the inner type would have made of it
pub fn cont_option_inner_null() {
    reset_all(&D_CONT);
    let n = match nd::below(4) { 0 => Node::Null, 1 => Node::Int(nd::below(3) as u64), 2 => Node::Int(300), _ => Node::Bool(true) };
    let o = ValuePointerRef::Origin; let l = o.push_index(1); let p = Path::ROOT.idx(1);
    let mut ex = Expect::EMPTY;
    let want = match n { Node::Null => None, other => u8_spec(other, p, &mut ex) };
    let r = <Option<Option<u8>> as Deserr<Rec>>::deserialize_from_value::<KV>(to_value(n), l);
    match r { Ok(v) => { oblige!(ex.log.n == 0, "C01,C02:ok_only_if_the_payload_has_no_fault"); oblige!(v == (if matches!(n, Node::Null) { None } else { Some(want) }), "C06:none_exactly_for_null_otherwise_the_content"); }
              Err(e) => { oblige!(ex.log.n > 0 && e.same(&rec::global()) && agree_until_stop(&e, &ex.log), "C01,C02,C04:option_reports"); } }
    rec::reset();
    let r = <Option<()> as Deserr<Rec>>::deserialize_from_value::<KV>(to_value(n), l);
    match r { Ok(v) => { oblige!(matches!(n, Node::Null) && v.is_none(), "C06:none_exactly_for_null_otherwise_the_content"); } Err(e) => { oblige!(!matches!(n, Node::Null) && e.n >= 1, "C06:none_exactly_for_null_otherwise_the_content"); } }
    rec::reset();
    let r = <Option<std::marker::PhantomData<u8>> as Deserr<Rec>>::deserialize_from_value::<KV>(to_value(n), l);
    oblige!(matches!(&r, Ok(v) if v.is_none() == matches!(n, Node::Null)), "C06:none_exactly_for_null_otherwise_the_content");
    rec::reset();
    let r = <Option<Box<Option<u8>>> as Deserr<Rec>>::deserialize_from_value::<KV>(to_value(n), l);
    match r { Ok(v) => { oblige!(v.is_none() == matches!(n, Node::Null), "C06:none_exactly_for_null_otherwise_the_content"); } Err(_) => { oblige!(ex.log.n > 0, "C02:err_only_if_fault"); } }
    // nested in a Vec: [n, null]
    rec::reset();
    put(0, n); put(1, Node::Null);
    let r = <Vec<Option<Option<u8>>> as Deserr<Rec>>::deserialize_from_value::<KV>(to_value(Node::Seq(0, 2)), l);
    match r { Ok(v) => { oblige!(v.len() == 2 && v[1].is_none() && v[0].is_none() == matches!(n, Node::Null), "C06:none_exactly_for_null_otherwise_the_content"); } Err(_) => { oblige!(ex.log.n > 0, "C02:err_only_if_fault"); } }
}

/// fixed-size arrays of arity 0, 1 and 3 (cont_array2 has arity 2): exactly the arity is required, whatever N is
pub fn cont_arrays_n() {
    reset_all(&D_CONT);
    let len = nd::below(5); let mut i = 0; while i < len { put(i, any_u8ish()); i += 1; }
    let n = Node::Seq(0, len);
    let o = ValuePointerRef::Origin; let l = o.push_index(1); let p = Path::ROOT.idx(1);
    macro_rules! go { ($N:expr) => {{
        rec::reset();
        let mut ex = Expect::EMPTY; let mut want = [0u8; $N];
        if len as usize != $N { ex.log.push(report(K_BADLEN, p, (len as u32 & 15) | (($N as u32) << 4), 0)); }
        else { let mut j = 0u8; while (j as usize) < $N { let before = ex.log.n; if let Some(v) = u8_spec(arena::node(j), p.idx(j as usize), &mut ex) { want[j as usize] = v; } if ex.log.n != before { ex.log.push(handover(p.idx(j as usize))); } j += 1; } }
        let r = <[u8; $N] as Deserr<Rec>>::deserialize_from_value::<KV>(to_value(n), l);
        match r { Ok(a) => { oblige!(len as usize == $N, "C06:ok_only_for_a_sequence_of_exactly_the_arity"); oblige!(ex.log.n == 0 && a == want, "C06:element_i_comes_from_payload_element_i"); oblige!(rec::calls() == 0, "C01:ok_only_if_nothing_reported"); }
                  Err(e) => { oblige!(ex.log.n > 0, "C02:err_only_if_fault"); oblige!(ex.log.n == 0 || ex.log.ev[0].kind() != K_BADLEN || (e.n >= 1 && e.ev[0].unstopped() == ex.log.ev[0]), "C06:wrong_arity_reports_the_whole_sequence_and_the_expected_length");
                              oblige!(e.same(&rec::global()) && agree_until_stop(&e, &ex.log) && (!no_stop(&e) || e.n == ex.log.n) && stop_then_handover(&e), "C01,C02,C03,C04:array_reports"); } }
    }}; }
    go!(0); go!(1); go!(3);
}

pub fn registry() -> Vec<(&'static str, crate::Body)> {
    vec![("cont_vec", cont_vec as crate::Body), ("cont_array2", cont_array2), ("cont_tuple2", cont_tuple2), ("cont_tuple3", cont_tuple3),
         ("cont_option_box", cont_option_box), ("cont_sets", cont_sets), ("cont_maps", cont_maps), ("order_maps_3", order_maps_3), ("cont_cs", cont_cs), ("cont_jvalue", cont_jvalue), ("cont_zst", cont_zst), ("cont_option_inner_null", cont_option_inner_null), ("cont_arrays_n", cont_arrays_n)]
}
