//! C17, C18: the two pure string helpers.
//!  * Kani: `did_you_mean` with `strsim::damerau_levenshtein` replaced by a symbolic distance table (every received
//!    length 0..=30, every distance vector) -- bounded in the number of candidates (3).
//!  * Exhaustive native enumeration of the finite domains named by the properties (the same bodies through
//!    `replay --enumerate`), compared with specification functions written from the statements.
#![allow(static_mut_refs)]
use crate::support::nd;
use crate::{oblige, reach};
use deserr::ValueKind;
use deserr::errors::helpers::did_you_mean;
use deserr::errors::json::value_kinds_description_json;

// ---- C17 ------------------------------------------------------------------------------------------------------
fn kind_from(i: u8) -> ValueKind {
    match i { 0 => ValueKind::Null, 1 => ValueKind::Boolean, 2 => ValueKind::Integer, 3 => ValueKind::NegativeInteger, 4 => ValueKind::Float, 5 => ValueKind::String, 6 => ValueKind::Sequence, _ => ValueKind::Map }
}
/// the phrase as the statement gives it, as a function of the *set* of kinds (bit i = kind i)
pub fn spec_phrase(set: u8) -> String {
    if set == 0 { return "a different value".to_string(); }
    let has = |i: u8| set & (1 << i) != 0;
    let mut items: Vec<&str> = Vec::new();
    if has(0) { items.push("null"); }
    if has(1) { items.push("a boolean"); }
    if has(4) { items.push("a number"); }                       // stands for the integer kinds too
    else if has(2) && has(3) { items.push("an integer"); }
    else { if has(2) { items.push("a positive integer"); } if has(3) { items.push("a negative integer"); } }
    if has(5) { items.push("a string"); }
    if has(6) { items.push("an array"); }
    if has(7) { items.push("an object"); }
    match items.len() {
        1 => items[0].to_string(),
        2 => format!("{} or {}", items[0], items[1]),
        n => { let mut s = items[..n - 1].join(", "); s.push_str(", or "); s.push_str(items[n - 1]); s }
    }
}
/// every sequence of kinds of length 0..=5, repetitions included (8^0 + ... + 8^5 sequences)
pub fn kinds_sequences() {
    let len = nd::below(6);
    let mut ks = Vec::new(); let mut set = 0u8;
    let mut i = 0; while i < len { let k = nd::below(8); ks.push(kind_from(k)); set |= 1 << k; i += 1; }
    let got = value_kinds_description_json(&ks);
    oblige!(got == spec_phrase(set), "C17:phrase_is_a_function_of_the_set_of_kinds_and_names_exactly_that_set");
}
/// every subset of 6, 7 or 8 kinds in every order (with the sequences above: all 256 subsets under every permutation)
pub fn kinds_permutations() {
    let size = 6 + nd::below(3);
    let mut avail: Vec<u8> = (0u8..8).collect();
    // drop 8 - size kinds (in increasing order, so each subset once), then enumerate every order of the rest
    let mut dropn = 8 - size; let mut lo = 0u8;
    while dropn > 0 { let pick = lo + nd::below(avail.len() as u8 - lo - (dropn - 1)); avail.remove(pick as usize); lo = pick; dropn -= 1; }
    let mut ks = Vec::new(); let mut set = 0u8;
    while !avail.is_empty() { let j = nd::below(avail.len() as u8); let k = avail.remove(j as usize); ks.push(kind_from(k)); set |= 1 << k; }
    let got = value_kinds_description_json(&ks);
    oblige!(got == spec_phrase(set), "C17:phrase_is_a_function_of_the_set_of_kinds_and_names_exactly_that_set");
}

// ---- C18 ------------------------------------------------------------------------------------------------------
/// independent Damerau-Levenshtein distance (unrestricted transpositions), over chars
pub fn dl_spec(a: &str, b: &str) -> usize {
    let a: Vec<char> = a.chars().collect(); let b: Vec<char> = b.chars().collect();
    let (n, m) = (a.len(), b.len());
    if n == 0 { return m; } if m == 0 { return n; }
    let inf = n + m;
    let mut d = vec![vec![0usize; m + 2]; n + 2];
    d[0][0] = inf;
    for i in 0..=n { d[i + 1][0] = inf; d[i + 1][1] = i; }
    for j in 0..=m { d[0][j + 1] = inf; d[1][j + 1] = j; }
    let mut last: std::collections::HashMap<char, usize> = std::collections::HashMap::new();
    for i in 1..=n {
        let mut db = 0;
        for j in 1..=m {
            let i1 = *last.get(&b[j - 1]).unwrap_or(&0);
            let j1 = db;
            let cost = if a[i - 1] == b[j - 1] { db = j; 0 } else { 1 };
            d[i + 1][j + 1] = (d[i][j] + cost).min(d[i + 1][j] + 1).min(d[i][j + 1] + 1).min(d[i1][j1] + (i - i1 - 1) + 1 + (j - j1 - 1));
        }
        last.insert(a[i - 1], i);
    }
    d[n + 1][m + 1]
}
/// the typo budget of the statement, by received length in bytes
pub fn budget(len: usize) -> Option<usize> {
    match len { 0..=3 => None, 4..=7 => Some(1), 8..=12 => Some(2), 13..=17 => Some(3), 18..=24 => Some(4), _ => Some(5) }
}
/// the suggestion as the statement gives it, from the distances
pub fn spec_suggestion(received_len: usize, accepted: &[&str], dist: &[usize]) -> String {
    let Some(bud) = budget(received_len) else { return String::new(); };
    let mut best: Option<usize> = None;
    for i in 0..accepted.len() {
        if dist[i] <= bud && best.map_or(true, |b| dist[i] < dist[b]) { best = Some(i); }   // earliest at minimal distance
    }
    match best { None => String::new(), Some(i) => format!("did you mean `{}`? ", accepted[i]) }
}
fn word_over(alpha: &[char], len: u8) -> String { let mut s = String::new(); let mut i = 0; while i < len { s.push(alpha[nd::below(alpha.len() as u8) as usize]); i += 1; } s }
/// every (received, single candidate) pair over a three-letter alphabet, lengths 0..=6 x 0..=5
pub fn dym_pairs() {
    let alpha = ['a', 'b', 'c'];
    let r = word_over(&alpha, nd::below(7));
    let c = word_over(&alpha, nd::below(6));
    let got = did_you_mean(&r, &[c.as_str()]);
    let want = spec_suggestion(r.len(), &[c.as_str()], &[dl_spec(&r, &c)]);
    oblige!(got == want, "C18:suggests_only_a_closest_accepted_name_within_the_budget");
}
/// every (received, single candidate) pair over an alphabet of a 1-byte, a 2-byte and a 3-byte character, lengths 0..=5 x 0..=4:
/// byte length (which fixes the budget) and character count (which the distance counts) disagree in every way they can
pub fn dym_pairs_multibyte() {
    let alpha = ['a', '\u{e9}', '\u{20ac}'];
    let r = word_over(&alpha, nd::below(6));
    let c = word_over(&alpha, nd::below(5));
    let got = did_you_mean(&r, &[c.as_str()]);
    let want = spec_suggestion(r.len(), &[c.as_str()], &[dl_spec(&r, &c)]);
    oblige!(got == want, "C18:suggests_only_a_closest_accepted_name_within_the_budget");
}
/// candidate lists with ties, exact matches and the empty list; received around every budget threshold; multi-byte input
pub fn dym_lists() {
    const POOL: [&str; 12] = ["", "abcd", "abdc", "abce", "abcdefgh", "abcdefgx", "\u{e9}t\u{e9}s", "abcdefghijklm", "pr\u{e9}nom", "\u{e9}\u{e9}\u{e9}e", "sort", "filter"];
    // multi-byte received strings whose byte length and character count fall into different budget buckets
    // (the last two: the byte lengths of received and candidate differ by more than the budget although the character distance is within it)
    const RECV: [&str; 17] = ["", "abc", "abcd", "abcx", "abcdefg", "abcdefgh", "abcdxfgy", "abcdefghijkl", "abcdefghijklm", "abcdefghijklmnopq", "abcdefghijklmnopqrstuvwx", "\u{e9}t\u{e9}", "pr\u{e8}noms", "\u{e9}\u{e9}\u{e9}\u{e9}", "\u{e9}\u{e9}", "sor\u{20ac}", "fil\u{20ac}\u{20ac}r"];
    let r = RECV[nd::below(17) as usize];
    let n = nd::below(4);
    let mut acc: Vec<&str> = Vec::new(); let mut i = 0; while i < n { acc.push(POOL[nd::below(12) as usize]); i += 1; }
    let dist: Vec<usize> = acc.iter().map(|c| dl_spec(r, c)).collect();
    let got = did_you_mean(r, &acc);
    oblige!(got == spec_suggestion(r.len(), &acc, &dist), "C18:suggests_only_a_closest_accepted_name_within_the_budget");
}

/// GENERATED long inputs (bounded, native): received words of every length 0..=40, candidates at 0..=7 edits from them (substitutions,
/// deletions, insertions and adjacent transpositions at positions spread by a seed), lists of 0..=8 candidates -- a slip that only
/// shows for long words, many edits or long candidate lists cannot hide behind the short exhaustive domains above
pub fn dym_generated() {
    const BASE: &str = "abcdefghijklmnopqrstuvwxyzABCDEFGHIJKLMN";
    let len = nd::below(41) as usize;
    let edits = nd::below(8) as usize;
    let n = nd::below(9) as usize;
    let seed = nd::below(4) as usize;
    let received: String = BASE[..len].to_string();
    let mutate = |k: usize, salt: usize| -> String {
        let mut w: Vec<char> = received.chars().collect();
        let mut j = 0;
        while j < k {
            let l = w.len();
            let pos = if l == 0 { 0 } else { (seed * 7 + salt * 3 + j * 5) % l };
            match (j + salt + seed) % 5 {
                0 => { if l > 0 { w[pos] = char::from(b'0' + ((j + salt) % 10) as u8); } else { w.push('0'); } }
                1 => { if l > 0 { w.remove(pos); } else { w.push('1'); } }
                2 => { w.insert(pos.min(l), char::from(b'0' + ((j * 3 + salt) % 10) as u8)); }
                3 => { if l >= 2 { let q = pos.min(l - 2); w.swap(q, q + 1); } else { w.push('2'); } }
                // a transposed pair with an insertion between its two letters: 2 unrestricted edits, 3 for the restricted (OSA) distance
                _ => { if l >= 2 && j + 1 < k { let q = pos.min(l - 2); w.swap(q, q + 1); w.insert(q + 1, '9'); j += 1; } else { w.push('3'); } }
            }
            j += 1;
        }
        w.into_iter().collect()
    };
    let owned: Vec<String> = (0..n).map(|i| match i % 4 { 0 => mutate(edits, i), 1 => mutate(edits + 1, i), 2 => mutate(edits.saturating_sub(1), i), _ => "zzzzzzzzzzzzzzzzzzzzzzzzzzzzzzzzzzzzzzzzzzzz"[..(len + i) % 44].to_string() }).collect();
    let acc: Vec<&str> = owned.iter().map(|s| s.as_str()).collect();
    let dist: Vec<usize> = acc.iter().map(|c| dl_spec(&received, c)).collect();
    let got = did_you_mean(&received, &acc);
    oblige!(got == spec_suggestion(received.len(), &acc, &dist), "C18:suggests_only_a_closest_accepted_name_within_the_budget");
}

// Kani: distances are symbolic (the real strsim is stubbed), so every threshold +-1 and every tie pattern is covered
pub static mut DIST: [usize; 3] = [0; 3];
pub const CANDS: [&str; 3] = ["aaaa", "bbbb", "cccc"];
pub fn table_distance(_a: &str, b: &str) -> usize {
    let c = b.as_bytes()[0];
    unsafe { if c == b'a' { DIST[0] } else if c == b'b' { DIST[1] } else { DIST[2] } }
}
pub fn dym_symbolic_distances() {
    const LONG: &str = "xxxxxxxxxxxxxxxxxxxxxxxxxxxxxx";
    let len = nd::below(31) as usize;
    let received = &LONG[..len];
    let d = [nd::below(8) as usize, nd::below(8) as usize, nd::below(8) as usize];
    unsafe { DIST = d; }
    let n = nd::below(4) as usize;
    let got = did_you_mean(received, &CANDS[..n]);
    // expected candidate by the statement
    let mut best: Option<usize> = None;
    if let Some(bud) = budget(len) { let mut i = 0; while i < n { if d[i] <= bud && best.map_or(true, |b| d[i] < d[b]) { best = Some(i); } i += 1; } }
    reach!(best.is_some(), "reach:suggestion"); reach!(best.is_none(), "reach:none");
    match best {
        None => { oblige!(got.is_empty(), "C18:suggests_only_a_closest_accepted_name_within_the_budget"); }
        Some(i) => {
            let b = got.as_bytes();
            // "did you mean `XXXX`? " : the candidate's first letter sits at byte 14
            oblige!(b.len() == 21 && b[14] == CANDS[i].as_bytes()[0] && b[19] == b'?', "C18:suggests_only_a_closest_accepted_name_within_the_budget");
        }
    }
}

pub fn registry() -> Vec<(&'static str, crate::Body)> {
    vec![("kinds_sequences", kinds_sequences as crate::Body), ("kinds_permutations", kinds_permutations), ("dym_pairs", dym_pairs), ("dym_lists", dym_lists), ("dym_pairs_multibyte", dym_pairs_multibyte), ("dym_generated", dym_generated)]
}

#[cfg(kani)]
mod proofs {
    mod dym_symbolic_distances { #[kani::proof] #[kani::unwind(34)] #[kani::stub(strsim::damerau_levenshtein, super::super::table_distance)] fn check() { super::super::dym_symbolic_distances() } }
}
