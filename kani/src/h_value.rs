//! C19 counterexample finder / bounded cross-check: every path of up to 6 steps over 2 keys and 2 indices, built with
//! push_key / push_index on the real ValuePointerRef, against a Vec-based model.  (The unbounded argument is the Verus
//! unit `value`; this body gives a concrete failing path when one of its obligations fails.)
use crate::support::nd;
use crate::oblige;
use deserr::ValuePointerRef;

#[derive(Clone, Copy, PartialEq, Debug)]
enum St { K(&'static str), I(usize) }
const KEYS: [&str; 2] = ["a", "bb"];
const IDX: [usize; 2] = [0, 7];

fn check(loc: ValuePointerRef, model: &[St]) {
    // a panic inside to_owned means no owned pointer is produced at all: reported under this property (natively; Kani reports panics itself)
    #[cfg(not(kani))]
    let owned = match std::panic::catch_unwind(std::panic::AssertUnwindSafe(|| loc.to_owned())) { Ok(o) => o, Err(_) => { oblige!(false, "C19:to_owned_lists_exactly_the_pushed_steps_in_order"); return; } };
    #[cfg(kani)]
    let owned = loc.to_owned();
    let rendered: Vec<String> = owned.path.iter().map(|c| format!("{:?}", c)).collect();
    let want: Vec<String> = model.iter().map(|s| match s { St::K(k) => format!("Key({:?})", k), St::I(i) => format!("Index({})", i) }).collect();
    oblige!(rendered == want, "C19:to_owned_lists_exactly_the_pushed_steps_in_order");
    oblige!(loc.is_origin() == model.is_empty(), "C19:origin_exactly_when_no_step_was_pushed");
    let first = model.iter().find_map(|s| if let St::K(k) = s { Some(*k) } else { None });
    let last = model.iter().rev().find_map(|s| if let St::K(k) = s { Some(*k) } else { None });
    oblige!(loc.first_field() == first, "C19:first_field_is_the_first_key_step");
    oblige!(loc.last_field() == last, "C19:last_field_is_the_last_key_step");
}
fn grow(loc: ValuePointerRef, model: &mut Vec<St>, left: u8) {
    check(loc, model);
    if left == 0 || nd::bool() { return; }
    match nd::below(4) {
        0 => { model.push(St::K(KEYS[0])); grow(loc.push_key(KEYS[0]), model, left - 1) }
        1 => { model.push(St::K(KEYS[1])); grow(loc.push_key(KEYS[1]), model, left - 1) }
        2 => { model.push(St::I(IDX[0])); grow(loc.push_index(IDX[0]), model, left - 1) }
        _ => { model.push(St::I(IDX[1])); grow(loc.push_index(IDX[1]), model, left - 1) }
    }
}
pub fn value_paths() { let mut m = Vec::new(); grow(ValuePointerRef::Origin, &mut m, 6); }
/// long paths (7..=40 steps): a repeating pattern of the four steps starting at a chosen phase, checked at every length on the way
fn grow_long(loc: ValuePointerRef, model: &mut Vec<St>, phase: usize, left: usize) {
    check(loc, model);
    if left == 0 { return; }
    match (model.len() + phase) % 4 {
        0 => { model.push(St::K(KEYS[0])); grow_long(loc.push_key(KEYS[0]), model, phase, left - 1) }
        1 => { model.push(St::I(IDX[0])); grow_long(loc.push_index(IDX[0]), model, phase, left - 1) }
        2 => { model.push(St::I(IDX[1])); grow_long(loc.push_index(IDX[1]), model, phase, left - 1) }
        _ => { model.push(St::K(KEYS[1])); grow_long(loc.push_key(KEYS[1]), model, phase, left - 1) }
    }
}
pub fn value_long_paths() { let mut m = Vec::new(); grow_long(ValuePointerRef::Origin, &mut m, nd::below(4) as usize, 40); }

/// boundary VALUES of steps (the other harnesses vary the number and mix of steps): index 0 / 1 / usize::MAX / 2^60 / 4096, the empty
/// key, equal neighbouring steps -- at the first, a middle and the last position of a path of up to 4 steps
pub fn value_step_values() {
    const KS: [&str; 3] = ["", "a", "a"];
    const IS: [usize; 5] = [0, 1, usize::MAX, 1 << 60, 4096];
    fn go(loc: ValuePointerRef, model: &mut Vec<St>, left: u8) {
        check(loc, model);
        if left == 0 || nd::bool() { return; }
        let c = nd::below(8) as usize;
        if c < 3 { model.push(St::K(KS[c])); go(loc.push_key(KS[c]), model, left - 1) } else { model.push(St::I(IS[c - 3])); go(loc.push_index(IS[c - 3]), model, left - 1) }
    }
    let mut m = Vec::new(); go(ValuePointerRef::Origin, &mut m, 4);
}

pub fn registry() -> Vec<(&'static str, crate::Body)> { vec![("value_paths", value_paths as crate::Body), ("value_long_paths", value_long_paths), ("value_step_values", value_step_values)] }
