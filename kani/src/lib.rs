//! Harness crate: Kani/CBMC on the real compiled `deserr` crate (path dependency on the repository under check).
//! Every harness body is a plain function, so the same body is (a) a Kani proof harness and (b) natively
//! re-executable on the concrete values of a counterexample (src/bin/replay.rs).
#![allow(dead_code, unused_imports, static_mut_refs, clippy::all)]
pub mod support;
pub mod h_scalars;
pub mod h_derive;
pub mod h_json;
pub mod h_text;
pub mod h_containers;
pub mod h_value;
#[cfg(not(kani))]
pub mod h_msg;

pub type Body = fn();
/// harness name -> body (used by the native replay binary)
pub fn registry() -> Vec<(&'static str, Body)> {
    let mut v: Vec<(&'static str, Body)> = Vec::new();
    v.extend(h_scalars::registry());
    v.extend(h_derive::registry());
    v.extend(h_json::registry());
    v.extend(h_text::registry());
    v.extend(h_containers::registry());
    v.extend(h_value::registry());
    #[cfg(not(kani))]
    v.extend(h_msg::registry());
    v
}

#[cfg(kani)]
pub fn fake_format(_a: std::fmt::Arguments<'_>) -> String { String::new() }
