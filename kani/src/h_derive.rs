//! C07-C11, C15 (and the derive part of C01-C04, C12): Kani on the *real expansion* of `#[derive(Deserr)]` for a
//! catalogue of types, against the reference interpreter.  BOUNDED: objects of at most 2 members (plus the tag),
//! keys over a per-type dictionary of equal-length words (effective keys, identifiers, near-misses, names of
//! skipped fields), values {Integer 0..3, Null, Boolean}, every Continue/Break answer sequence.
#![allow(non_snake_case, static_mut_refs)]
use crate::support::{arena::{self, *}, leaf::{self, Leaf}, nd, rec::{self, *}, reference::{self, *}};
use crate::{oblige, reach};
use deserr::{Deserr, ValuePointerRef};
use crate::support::rec::Foreign;

pub trait Viewed { fn slots(&self) -> [u64; MAXF]; }
pub fn lv(l: &Leaf) -> u64 { leaf_view(l.0) }
pub fn ov(o: &Option<Leaf>) -> u64 { match o { Some(l) => lv(l), None => 0 } }

pub static mut COUNTERS: [u8; NCOUNTERS] = [0; NCOUNTERS];
pub fn bump(c: usize) { unsafe { COUNTERS[c] += 1; } }
pub fn counters() -> [u8; NCOUNTERS] { unsafe { COUNTERS } }

/// element-wise comparisons (a derived `==` on arrays compiles to one long memcmp, which would need a larger unwinding bound)
pub fn eq_slots(a: &[u64; MAXF], b: &[u64; MAXF]) -> bool { let mut i = 0; while i < MAXF { if a[i] != b[i] { return false; } i += 1; } true }
pub fn eq_counters(a: &[u8; NCOUNTERS], b: &[u8; NCOUNTERS]) -> bool { let mut i = 0; while i < NCOUNTERS { if a[i] != b[i] { return false; } i += 1; } true }

pub fn any_val() -> Node { match nd::below(3) { 0 => Node::Int(nd::below(4) as u64), 1 => Node::Null, _ => Node::Bool(true) } }

pub fn reset_all(dict: &'static [&'static str]) {
    arena::set_dict(dict); nd::assume(arena::dict_ok()); rec::reset(); leaf::reset(); unsafe { COUNTERS = [0; NCOUNTERS]; }
}

/// the obligations shared by every derived target, given the result and the reference expectation
pub fn judge<T: Viewed>(r: Result<T, Rec>, ex: &Expect, p: &Path) {
    reach!(ex.log.n == 0, "reach:accepted"); reach!(ex.log.n > 0, "reach:faulty");
    judge_nocover(r, ex, p)
}
/// same obligations, for scenarios in which only one of accepted / faulty is possible
pub fn judge_nocover<T: Viewed>(r: Result<T, Rec>, ex: &Expect, p: &Path) {
    match r {
        Ok(v) => {
            oblige!(ex.log.n == 0, "C01,C02:ok_only_if_the_payload_has_no_fault");
            oblige!(rec::calls() == 0, "C01:ok_only_if_nothing_reported");
            // the same fact, said once per kind of report (so that the check of the property that owns the kind reports it)
            oblige!(!any_ev(&ex.log, is_missing_ev), "C08:accepted_although_a_missing_field_must_be_reported");
            oblige!(!any_ev(&ex.log, is_unknown_key_ev), "C09:accepted_although_an_unknown_key_must_be_reported");
            oblige!(!any_ev(&ex.log, is_user_fn_ev), "C11:accepted_although_a_user_function_failed");
            oblige!(ex.log.n != 0 || eq_slots(&v.slots(), &ex.view), "C07,C08,C10,C11:fields_filled_from_effective_keys_defaults_conversions_and_selected_variant");
            oblige!(ex.log.n != 0 || eq_counters(&counters(), &ex.counters), "C11:user_functions_run_exactly_once_on_good_values");
        }
        Err(e) => {
            oblige!(!e.overflowed(), "harness:log_capacity");
            oblige!(e.same(&rec::global()), "C01:returned_error_is_built_from_every_call");
            oblige!(ex.log.n > 0, "C02:fails_only_if_the_payload_has_a_fault");
            oblige!(agree_until_stop(&e, &ex.log), "C02,C03:events_up_to_first_stop_equal_keep_going_run");
            oblige!(!no_stop(&e) || e.n == ex.log.n, "C01,C02:keep_going_run_is_complete");
            oblige!(stop_then_handover(&e), "C03:stop_ends_work");
            // the same law on the log of *every* call made (a report made after a stop and then dropped is invisible in the returned error)
            oblige!(stop_then_handover(&rec::global()), "C01,C03:no_report_is_made_after_a_stop");
            oblige!(stop_at_user_fn_report_ends_the_container(&rec::global()), "C03:a_stop_answered_to_a_user_function_error_ends_the_container");
            oblige!(all_under(&e, p), "C04:every_event_under_the_given_location");
            oblige!(handovers_at_or_above_previous(&rec::global()), "C04:every_hand_over_is_at_or_above_what_it_hands_over");
            oblige!(agree_on(&e, &ex.log, |x| x.kind() == K_HANDOVER || x.kind() == K_UNEXPECTED || x.kind() == K_KIND), "C04:locations_and_actual_values");
            oblige!(agree_on(&e, &ex.log, is_missing_ev), "C04,C07,C08:missing_reports");
            oblige!(agree_on(&e, &ex.log, is_unknown_key_ev), "C04,C07,C09:unknown_key_reports");
            oblige!(agree_on(&e, &ex.log, is_user_fn_ev), "C11:user_function_errors_handed_over");
            oblige!(agree_on_fn_handover(&e, &ex.log), "C04,C11:user_function_errors_handed_over_at_the_field_or_container_location");
            oblige!(!no_stop(&e) || eq_counters(&counters(), &ex.counters), "C11:user_functions_run_exactly_once_on_good_values");
        }
    }
}

/// the same for scenarios in which only one of accepted / faulty is possible (e.g. fewer members than required fields)
pub fn run_struct_nocover<T: Deserr<Rec> + Viewed>(desc: &'static StructDesc, dict: &'static [&'static str], n: u8) {
    reset_all(dict);
    let mut i = 0;
    while i < n { put_entry(i, nd::below(dict.len() as u8), any_val()); i += 1; }
    let o = ValuePointerRef::Origin; let l = o.push_index(1);
    let p = Path::ROOT.idx(1);
    let r = <T as Deserr<Rec>>::deserialize_from_value::<KV>(to_value(Node::Map(0, n)), l);
    let mut ex = Expect::EMPTY;
    reference::struct_spec(desc, Node::Map(0, n), p, &mut ex);
    judge_nocover(r, &ex, &p);
}
pub fn run_struct<T: Deserr<Rec> + Viewed>(desc: &'static StructDesc, dict: &'static [&'static str], n: u8) {
    reset_all(dict);
    let mut i = 0;
    while i < n { put_entry(i, nd::below(dict.len() as u8), any_val()); i += 1; }
    let o = ValuePointerRef::Origin; let l = o.push_index(1);
    let p = Path::ROOT.idx(1);
    let r = <T as Deserr<Rec>>::deserialize_from_value::<KV>(to_value(Node::Map(0, n)), l);
    let mut ex = Expect::EMPTY;
    reference::struct_spec(desc, Node::Map(0, n), p, &mut ex);
    judge(r, &ex, &p);
}

// ---- T1: no attributes ------------------------------------------------------------------------------------
#[derive(Deserr)]
pub struct Plain { pub aaaa: Leaf, pub bbbb: Option<Leaf> }
impl Viewed for Plain { fn slots(&self) -> [u64; MAXF] { [lv(&self.aaaa), ov(&self.bbbb), 0, 0, 0, 0] } }
pub static D_PLAIN: [&str; 4] = ["aaaa", "bbbb", "Aaaa", "cccc"];
pub static S_PLAIN: StructDesc = StructDesc { fields: &[
    FieldDesc { key: 0, presence: Presence::Required, ty: FTy::Leaf, missing_fn: false, conv: Conv::None, map: None },
    FieldDesc { key: 1, presence: Presence::Required, ty: FTy::OptLeaf, missing_fn: false, conv: Conv::None, map: None },
], deny: Deny::No, validate: None };
pub fn derive_plain_2() { run_struct::<Plain>(&S_PLAIN, &D_PLAIN, 2) }

// ---- T2: rename_all = camelCase on a struct, rename wins, default, deny_unknown_fields ---------------------
#[derive(Deserr)]
#[deserr(rename_all = camelCase, deny_unknown_fields)]
pub struct Camel {
    pub ab_cd: Leaf,
    #[deserr(rename = "zedd")]
    pub ef_gh: Leaf,
    #[deserr(default)]
    pub ij_kl: Option<Leaf>,
}
impl Viewed for Camel { fn slots(&self) -> [u64; MAXF] { [lv(&self.ab_cd), lv(&self.ef_gh), ov(&self.ij_kl), 0, 0, 0] } }
// effective keys by the statement: ab_cd -> abCd (camelCase), ef_gh -> zedd (rename wins), ij_kl -> ijKl
pub static D_CAMEL: [&str; 6] = ["abCd", "zedd", "ijKl", "abcd", "efGh", "AbCd"];
pub static S_CAMEL: StructDesc = StructDesc { fields: &[
    FieldDesc { key: 0, presence: Presence::Required, ty: FTy::Leaf, missing_fn: false, conv: Conv::None, map: None },
    FieldDesc { key: 1, presence: Presence::Required, ty: FTy::Leaf, missing_fn: false, conv: Conv::None, map: None },
    FieldDesc { key: 2, presence: Presence::Default(0), ty: FTy::OptLeaf, missing_fn: false, conv: Conv::None, map: None },
], deny: Deny::Default, validate: None };
pub fn derive_camel_2() { run_struct::<Camel>(&S_CAMEL, &D_CAMEL, 2) }

// ---- T3: rename_all = lowercase, skip in the middle of the declaration, default = expr ---------------------
#[derive(Deserr)]
#[deserr(rename_all = lowercase)]
pub struct Lower {
    pub AbCd: Leaf,
    #[deserr(skip)]
    pub skip: Leaf,
    #[deserr(default = Leaf(76))]
    pub DFLT: Leaf,
}
impl Viewed for Lower { fn slots(&self) -> [u64; MAXF] { [lv(&self.AbCd), lv(&self.skip), lv(&self.DFLT), 0, 0, 0] } }
// AbCd -> abcd, DFLT -> dflt; `skip` is never read (its name in the payload is just an unknown key)
pub static D_LOWER: [&str; 5] = ["abcd", "dflt", "skip", "AbCd", "DFLT"];
pub static S_LOWER: StructDesc = StructDesc { fields: &[
    FieldDesc { key: 0, presence: Presence::Required, ty: FTy::Leaf, missing_fn: false, conv: Conv::None, map: None },
    FieldDesc { key: 255, presence: Presence::Skipped(1), ty: FTy::Leaf, missing_fn: false, conv: Conv::None, map: None },
    FieldDesc { key: 1, presence: Presence::Default(77), ty: FTy::Leaf, missing_fn: false, conv: Conv::None, map: None },
], deny: Deny::No, validate: None };
pub fn derive_lower_2() { run_struct::<Lower>(&S_LOWER, &D_LOWER, 2) }

// ---- T4: deny_unknown_fields with a skipped field in the middle and a renamed field ---------------------------
#[derive(Deserr)]
#[deserr(deny_unknown_fields)]
pub struct Deny4 {
    pub aaaa: Option<Leaf>,
    #[deserr(skip)]
    pub ssss: Option<Leaf>,
    #[deserr(rename = "rrrr")]
    pub bbbb: Option<Leaf>,
    #[deserr(default)]
    pub cccc: Option<Leaf>,
}
impl Viewed for Deny4 { fn slots(&self) -> [u64; MAXF] { [ov(&self.aaaa), ov(&self.ssss), ov(&self.bbbb), ov(&self.cccc), 0, 0] } }
pub static D_DENY4: [&str; 5] = ["aaaa", "rrrr", "cccc", "ssss", "bbbb"];
pub static S_DENY4: StructDesc = StructDesc { fields: &[
    FieldDesc { key: 0, presence: Presence::Required, ty: FTy::OptLeaf, missing_fn: false, conv: Conv::None, map: None },
    FieldDesc { key: 255, presence: Presence::Skipped(0), ty: FTy::OptLeaf, missing_fn: false, conv: Conv::None, map: None },
    FieldDesc { key: 1, presence: Presence::Required, ty: FTy::OptLeaf, missing_fn: false, conv: Conv::None, map: None },
    FieldDesc { key: 2, presence: Presence::Default(0), ty: FTy::OptLeaf, missing_fn: false, conv: Conv::None, map: None },
], deny: Deny::Default, validate: None };
pub fn derive_deny4_2() { run_struct::<Deny4>(&S_DENY4, &D_DENY4, 2) }


// ---- T5: user functions for unknown keys and missing fields ------------------------------------------------
pub fn deny_fn(key: &str, accepted: &[&str], loc: ValuePointerRef) -> Foreign {
    bump(4);
    Foreign(2000 + word_id(key) as u32, (list_hash(accepted).wrapping_add(7919u32.wrapping_mul(pathsig(&path_of(loc))))) & 0xfff)
}
pub fn miss_fn(field: &str, loc: ValuePointerRef) -> Foreign { bump(5); Foreign(1000 + word_id(field) as u32, pathsig(&path_of(loc)) & 0xfff) }
#[derive(Deserr)]
#[deserr(error = Rec, deny_unknown_fields = deny_fn)]
pub struct Fns5 {
    #[deserr(missing_field_error = miss_fn, rename = "zzzz")]
    pub aaaa: Leaf,
    pub bbbb: Option<Leaf>,
}
impl Viewed for Fns5 { fn slots(&self) -> [u64; MAXF] { [lv(&self.aaaa), ov(&self.bbbb), 0, 0, 0, 0] } }
// aaaa is renamed zzzz: the user function must be told the effective key, never the identifier
pub static D_FNS5: [&str; 5] = ["zzzz", "bbbb", "cccc", "Aaaa", "aaaa"];
pub static S_FNS5: StructDesc = StructDesc { fields: &[
    FieldDesc { key: 0, presence: Presence::Required, ty: FTy::Leaf, missing_fn: true, conv: Conv::None, map: None },
    FieldDesc { key: 1, presence: Presence::Required, ty: FTy::OptLeaf, missing_fn: false, conv: Conv::None, map: None },
], deny: Deny::Func, validate: None };
pub fn derive_fns5_2() { run_struct::<Fns5>(&S_FNS5, &D_FNS5, 2) }

// ---- T8: from / try_from / map / validate with call-counting functions -----------------------------------------
#[derive(Debug, PartialEq, Eq)]
pub struct Wrapped(pub u64);
pub fn conv_from(l: Leaf) -> Wrapped { bump(0); Wrapped(lv(&l) + 500) }
pub fn conv_try(l: Leaf) -> Result<Wrapped, Foreign> { bump(1); let v = lv(&l); if v % 2 == 1 { Ok(Wrapped(v + 700)) } else { Err(Foreign(3000 + v as u32, 0)) } }
pub fn map_fn(o: Option<Leaf>) -> Option<Leaf> { bump(2); Some(Leaf(ov(&o) + 1000 - 1)) }
pub fn validate_fn(v: Conv8, loc: ValuePointerRef) -> Result<Conv8, Foreign> {
    bump(3);
    let sl = v.slots(); let mut s = 0u64; let mut i = 0; while i < MAXF { s += sl[i]; i += 1; }
    if s % 7 == 0 { Err(Foreign(4000 + (s as u32 % 1000), pathsig(&path_of(loc)) & 0xfff)) } else { Ok(v) }
}
#[derive(Deserr)]
#[deserr(error = Rec, validate = validate_fn -> Foreign)]
pub struct Conv8 {
    #[deserr(try_from(Leaf) = conv_try -> Foreign)]
    pub aaaa: Wrapped,
    #[deserr(from(Leaf) = conv_from)]
    pub bbbb: Wrapped,
    #[deserr(default, map = map_fn)]
    pub cccc: Option<Leaf>,
}
impl Viewed for Conv8 { fn slots(&self) -> [u64; MAXF] { [self.aaaa.0, self.bbbb.0, ov(&self.cccc), 0, 0, 0] } }
pub static D_CONV8: [&str; 4] = ["aaaa", "bbbb", "cccc", "dddd"];
pub static S_CONV8: StructDesc = StructDesc { fields: &[
    FieldDesc { key: 0, presence: Presence::Required, ty: FTy::Leaf, missing_fn: false, conv: Conv::TryFrom(1), map: None },
    FieldDesc { key: 1, presence: Presence::Required, ty: FTy::Leaf, missing_fn: false, conv: Conv::From(0), map: None },
    FieldDesc { key: 2, presence: Presence::Default(0), ty: FTy::OptLeaf, missing_fn: false, conv: Conv::None, map: Some(2) },
], deny: Deny::No, validate: Some(3) };
pub fn derive_conv8_2() { run_struct::<Conv8>(&S_CONV8, &D_CONV8, 2) }
pub fn derive_conv8_3() { run_struct::<Conv8>(&S_CONV8, &D_CONV8, 3) }

// container-level try_from: the intermediate value is deserialized first; the function runs exactly once iff that worked
pub fn cont_try(l: Leaf) -> Result<Cont9, Foreign> { bump(6); let v = lv(&l); if v % 2 == 1 { Ok(Cont9(v + 900)) } else { Err(Foreign(5000 + v as u32, 0)) } }
#[derive(Deserr)]
#[deserr(error = Rec, try_from(Leaf) = cont_try -> Foreign)]
pub struct Cont9(pub u64);
impl Viewed for Cont9 { fn slots(&self) -> [u64; MAXF] { [self.0, 0, 0, 0, 0, 0] } }
pub fn derive_cont9() {
    reset_all(&D_CONV8);
    let n = any_val();
    let o = ValuePointerRef::Origin; let l = o.push_index(1);
    let p = Path::ROOT.idx(1);
    let r = <Cont9 as Deserr<Rec>>::deserialize_from_value::<KV>(to_value(n), l);
    let mut ex = Expect::EMPTY;
    match n {
        Node::Int(x) => { ex.counters[6] = 1; let v = leaf_view(x); if v % 2 == 1 { ex.view[0] = v + 900; } else { ex.log.push(report(K_FOREIGN, p, 5000 + v as u32, 0)); } }
        _ => { ex.log.push(report(K_UNEXPECTED, p, 0, 0)); }
    }
    judge(r, &ex, &p);
}

// ---- T6: internally tagged enum ---------------------------------------------------------------------------
#[derive(Deserr)]
#[deserr(tag = "t_ag", rename_all = camelCase)]
pub enum Tagged {
    Unit,
    #[deserr(rename = "bbbb")]
    VarB { xxxx: Leaf },
    #[deserr(rename_all = lowercase)]
    VarC { XxYy: Leaf, #[deserr(default)] zzzz: Option<Leaf> },
    VarD { xxxx: Option<Leaf> },
}
impl Viewed for Tagged {
    fn slots(&self) -> [u64; MAXF] {
        match self {
            Tagged::Unit => [1, 0, 0, 0, 0, 0],
            Tagged::VarB { xxxx } => [2, lv(xxxx), 0, 0, 0, 0],
            Tagged::VarC { XxYy, zzzz } => [3, lv(XxYy), ov(zzzz), 0, 0, 0],
            Tagged::VarD { xxxx } => [4, ov(xxxx), 0, 0, 0, 0],
        }
    }
}
// by the statement: the container's rename_all renames the variants only (Unit -> unit, VarC -> varC, VarD -> varD; VarB is
// renamed bbbb); a variant's fields are renamed only by the variant's own rename_all (VarC: XxYy -> xxyy)
pub static D_TAGGED: [&str; 11] = ["t_ag", "xxxx", "xxyy", "zzzz", "unit", "bbbb", "varC", "varD", "Unit", "VarC", "XxYy"];
pub static S_VARB: StructDesc = StructDesc { fields: &[FieldDesc { key: 1, presence: Presence::Required, ty: FTy::Leaf, missing_fn: false, conv: Conv::None, map: None }], deny: Deny::No, validate: None };
pub static S_VARC: StructDesc = StructDesc { fields: &[
    FieldDesc { key: 2, presence: Presence::Required, ty: FTy::Leaf, missing_fn: false, conv: Conv::None, map: None },
    FieldDesc { key: 3, presence: Presence::Default(0), ty: FTy::OptLeaf, missing_fn: false, conv: Conv::None, map: None }], deny: Deny::No, validate: None };
pub static S_VARD: StructDesc = StructDesc { fields: &[FieldDesc { key: 1, presence: Presence::Required, ty: FTy::OptLeaf, missing_fn: false, conv: Conv::None, map: None }], deny: Deny::No, validate: None };
pub static E_TAGGED: EnumDesc = EnumDesc { tag: 0, variants: &[(4, VariantDesc::Unit), (5, VariantDesc::Named(&S_VARB)), (6, VariantDesc::Named(&S_VARC)), (7, VariantDesc::Named(&S_VARD))] };
/// tag value: a string from the dictionary (variant names, case variations, a field key) or a non-string
fn any_tag_val() -> Node { match nd::below(3) { 0 => Node::Str(4 + nd::below(6)), 1 => Node::Str(nd::below(2)), _ => Node::Int(0) } }
/// field keys that matter next to the tag
fn any_field_key() -> u8 { match nd::below(5) { 0 => 1, 1 => 2, 2 => 3, 3 => 10, _ => 0 } }
fn tagged_run(n: u8) -> (Result<Tagged, Rec>, Expect, Path) {
    let o = ValuePointerRef::Origin; let l = o.push_index(1);
    let p = Path::ROOT.idx(1);
    let r = <Tagged as Deserr<Rec>>::deserialize_from_value::<KV>(to_value(Node::Map(0, n)), l);
    let mut ex = Expect::EMPTY;
    reference::enum_spec(&E_TAGGED, Node::Map(0, n), p, &mut ex);
    match (&r, ex.log.n) { (Err(e), k) if k > 0 => { oblige!(agree_on(e, &ex.log, is_tag_ev), "C04,C10:tag_and_variant_reports"); } (Ok(_), k) if k > 0 => { oblige!(!any_ev(&ex.log, is_tag_ev), "C10:accepted_although_the_tag_or_variant_must_be_reported"); } _ => {} }
    (r, ex, p)
}
fn run_tagged(n: u8) { let (r, ex, p) = tagged_run(n); judge(r, &ex, &p); }
fn run_tagged_nocover(n: u8) { let (r, ex, p) = tagged_run(n); judge_nocover(r, &ex, &p); }
pub fn derive_tagged_first() { reset_all(&D_TAGGED); put_entry(0, 0, any_tag_val()); put_entry(1, any_field_key(), any_val()); run_tagged(2); }
pub fn derive_tagged_last() { reset_all(&D_TAGGED); put_entry(0, any_field_key(), any_val()); put_entry(1, 0, any_tag_val()); run_tagged(2); }
pub fn derive_tagged_absent() { reset_all(&D_TAGGED); put_entry(0, any_field_key(), any_val()); run_tagged_nocover(1); }
fn tagged_scalar_case(n: Node) {
    reset_all(&D_TAGGED);
    let o = ValuePointerRef::Origin; let l = o.push_index(1); let p = Path::ROOT.idx(1);
    let r = <Tagged as Deserr<Rec>>::deserialize_from_value::<KV>(to_value(n), l);
    let mut ex = Expect::EMPTY; reference::enum_spec(&E_TAGGED, n, p, &mut ex); judge_nocover(r, &ex, &p);
}
/// a tagged enum is read from a map only (each scalar kind with a concrete discriminant)
pub fn derive_tagged_not_a_map() { tagged_scalar_case(Node::Int(nd::below(4) as u64)); tagged_scalar_case(Node::Null); tagged_scalar_case(Node::Bool(true)); tagged_scalar_case(Node::Seq(0, 0)); }

// ---- T7: unit-only enum read from a string ------------------------------------------------------------------
#[derive(Deserr, Debug, PartialEq, Eq)]
#[deserr(rename_all = lowercase)]
pub enum Units { Aaaa, #[deserr(rename = "BBBB")] Bbbb, Cccc }
impl Viewed for Units { fn slots(&self) -> [u64; MAXF] { [match self { Units::Aaaa => 1, Units::Bbbb => 2, Units::Cccc => 3 }, 0, 0, 0, 0, 0] } }
pub static D_UNITS: [&str; 6] = ["aaaa", "BBBB", "cccc", "Aaaa", "bbbb", "Cccc"];
pub fn derive_units() {
    reset_all(&D_UNITS);
    let n = match nd::below(4) { 0 => Node::Str(nd::below(6)), 1 => Node::Int(1), 2 => Node::Null, _ => Node::Map(0, 0) };
    let o = ValuePointerRef::Origin; let l = o.push_index(1); let p = Path::ROOT.idx(1);
    let r = <Units as Deserr<Rec>>::deserialize_from_value::<KV>(to_value(n), l);
    let mut ex = Expect::EMPTY;
    reference::unit_enum_spec(&[0, 1, 2], n, p, &mut ex);
    match (&r, ex.log.n) { (Err(e), k) if k > 0 => { oblige!(agree_on(e, &ex.log, is_tag_ev), "C04,C10:tag_and_variant_reports"); } (Ok(_), k) if k > 0 => { oblige!(!any_ev(&ex.log, is_tag_ev), "C10:accepted_although_the_tag_or_variant_must_be_reported"); } _ => {} }
    judge(r, &ex, &p);
}

// ---- T9: nesting: a derived struct and a real Vec inside a derived struct (locations two levels deep) ---------
#[derive(Deserr)]
pub struct Nest { pub innr: Plain, pub list: Vec<Leaf> }
impl Viewed for Nest {
    fn slots(&self) -> [u64; MAXF] {
        let sl = self.innr.slots(); let mut s = 0u64; let mut i = 0; while i < MAXF { s = s * 3 + sl[i]; i += 1; }
        let mut v = 0u64; let mut j = 0; while j < self.list.len() { v = v * 10 + lv(&self.list[j]); j += 1; }
        [s, 100 + v, 0, 0, 0, 0]
    }
}
pub static D_NEST: [&str; 4] = ["innr", "list", "aaaa", "bbbb"];
pub static S_NEST: StructDesc = StructDesc { fields: &[
    FieldDesc { key: 0, presence: Presence::Required, ty: FTy::Struct(&S_PLAIN_N), missing_fn: false, conv: Conv::None, map: None },
    FieldDesc { key: 1, presence: Presence::Required, ty: FTy::VecLeaf, missing_fn: false, conv: Conv::None, map: None },
], deny: Deny::No, validate: None };
pub static S_PLAIN_N: StructDesc = StructDesc { fields: &[
    FieldDesc { key: 2, presence: Presence::Required, ty: FTy::Leaf, missing_fn: false, conv: Conv::None, map: None },
    FieldDesc { key: 3, presence: Presence::Required, ty: FTy::OptLeaf, missing_fn: false, conv: Conv::None, map: None },
], deny: Deny::No, validate: None };
pub fn derive_nest() {
    reset_all(&D_NEST);
    // { innr: {aaaa: v, bbbb: v} | scalar, list: [v, v] | scalar }   (concrete keys, symbolic values and shapes)
    put_entry(0, 0, if nd::bool() { Node::Map(4, 2) } else { any_val() });
    put_entry(1, 1, if nd::bool() { Node::Seq(6, nd::below(2)) } else { any_val() });
    put_entry(4, 2, any_val()); put_entry(5, 3, any_val());
    put(6, any_val()); put(7, any_val());
    let o = ValuePointerRef::Origin; let l = o.push_index(1); let p = Path::ROOT.idx(1);
    let r = <Nest as Deserr<Rec>>::deserialize_from_value::<KV>(to_value(Node::Map(0, 2)), l);
    let mut ex = Expect::EMPTY;
    reference::struct_spec(&S_NEST, Node::Map(0, 2), p, &mut ex);
    judge(r, &ex, &p);
}


// ---- T10: defaults declared *before* required fields (the per-field token lists of the derive are zipped by index) ----
#[derive(Deserr)]
pub struct DefFirst {
    #[deserr(default = Leaf(41))]
    pub dddd: Leaf,
    pub rrrr: Leaf,
    #[deserr(default)]
    pub eeee: Option<Leaf>,
    pub ssss: Option<Leaf>,
}
impl Viewed for DefFirst { fn slots(&self) -> [u64; MAXF] { [lv(&self.dddd), lv(&self.rrrr), ov(&self.eeee), ov(&self.ssss), 0, 0] } }
pub static D_DEFFIRST: [&str; 5] = ["dddd", "rrrr", "eeee", "ssss", "Dddd"];
pub static S_DEFFIRST: StructDesc = StructDesc { fields: &[
    FieldDesc { key: 0, presence: Presence::Default(42), ty: FTy::Leaf, missing_fn: false, conv: Conv::None, map: None },
    FieldDesc { key: 1, presence: Presence::Required, ty: FTy::Leaf, missing_fn: false, conv: Conv::None, map: None },
    FieldDesc { key: 2, presence: Presence::Default(0), ty: FTy::OptLeaf, missing_fn: false, conv: Conv::None, map: None },
    FieldDesc { key: 3, presence: Presence::Required, ty: FTy::OptLeaf, missing_fn: false, conv: Conv::None, map: None },
], deny: Deny::No, validate: None };
pub fn derive_deffirst_2() { run_struct::<DefFirst>(&S_DEFFIRST, &D_DEFFIRST, 2) }
/// native enumeration only
pub fn derive_deffirst_3() { run_struct::<DefFirst>(&S_DEFFIRST, &D_DEFFIRST, 3) }

// ---- T11: a field-level error type (`error = Rec2` on a field), with and without a conversion function ----------------
#[derive(Deserr)]
#[deserr(error = Rec)]
pub struct Ferr10 {
    #[deserr(try_from(Leaf) = conv_try -> Foreign, error = Rec2)]
    pub aaaa: Wrapped,
    #[deserr(error = Rec2)]
    pub bbbb: Leaf,
}
impl Viewed for Ferr10 { fn slots(&self) -> [u64; MAXF] { [self.aaaa.0, lv(&self.bbbb), 0, 0, 0, 0] } }
pub static S_FERR10: StructDesc = StructDesc { fields: &[
    FieldDesc { key: 0, presence: Presence::Required, ty: FTy::Leaf, missing_fn: false, conv: Conv::TryFrom(1), map: None },
    FieldDesc { key: 1, presence: Presence::Required, ty: FTy::Leaf, missing_fn: false, conv: Conv::None, map: None },
], deny: Deny::No, validate: None };
pub fn derive_ferr10_2() { run_struct::<Ferr10>(&S_FERR10, &D_CONV8, 2) }

// ---- T12: internally tagged enum with deny_unknown_fields (the accepted list of a variant never contains the tag) ------
#[derive(Deserr)]
#[deserr(tag = "kind", deny_unknown_fields)]
pub enum TagDeny {
    Unit,
    #[deserr(rename_all = lowercase)]
    VarB { XxXx: Leaf },
    VarE {},
    /// declared after a variant with its own rename_all: its field keeps its identifier as key
    VarG { YyYy: Leaf },
}
impl Viewed for TagDeny {
    fn slots(&self) -> [u64; MAXF] { match self { TagDeny::Unit => [1, 0, 0, 0, 0, 0], TagDeny::VarB { XxXx } => [2, lv(XxXx), 0, 0, 0, 0], TagDeny::VarE {} => [3, 0, 0, 0, 0, 0], TagDeny::VarG { YyYy } => [4, lv(YyYy), 0, 0, 0, 0] } }
}
// VarB: XxXx -> xxxx (the variant's own rename_all = lowercase); VarG: YyYy stays YyYy
pub static D_TAGDENY: [&str; 9] = ["kind", "Unit", "VarB", "VarE", "xxxx", "yyyy", "VarG", "YyYy", "XxXx"];
pub static S_TD_B: StructDesc = StructDesc { fields: &[FieldDesc { key: 4, presence: Presence::Required, ty: FTy::Leaf, missing_fn: false, conv: Conv::None, map: None }], deny: Deny::Default, validate: None };
pub static S_TD_E: StructDesc = StructDesc { fields: &[], deny: Deny::Default, validate: None };
pub static S_TD_G: StructDesc = StructDesc { fields: &[FieldDesc { key: 7, presence: Presence::Required, ty: FTy::Leaf, missing_fn: false, conv: Conv::None, map: None }], deny: Deny::Default, validate: None };
pub static E_TAGDENY: EnumDesc = EnumDesc { tag: 0, variants: &[(1, VariantDesc::Unit), (2, VariantDesc::Named(&S_TD_B)), (3, VariantDesc::Named(&S_TD_E)), (6, VariantDesc::Named(&S_TD_G))] };
fn td_tag() -> Node { Node::Str([1u8, 2, 3, 6][nd::below(4) as usize]) }
fn td_key() -> u8 { [4u8, 5, 7, 8, 0][nd::below(5) as usize] }
fn tagdeny_run(n: u8) {
    let o = ValuePointerRef::Origin; let l = o.push_index(1);
    let p = Path::ROOT.idx(1);
    let r = <TagDeny as Deserr<Rec>>::deserialize_from_value::<KV>(to_value(Node::Map(0, n)), l);
    let mut ex = Expect::EMPTY;
    reference::enum_spec(&E_TAGDENY, Node::Map(0, n), p, &mut ex);
    match (&r, ex.log.n) { (Err(e), k) if k > 0 => { oblige!(agree_on(e, &ex.log, is_tag_ev), "C04,C10:tag_and_variant_reports"); } (Ok(_), k) if k > 0 => { oblige!(!any_ev(&ex.log, is_tag_ev), "C10:accepted_although_the_tag_or_variant_must_be_reported"); } _ => {} }
    judge(r, &ex, &p);
}
/// tag first / tag last, one other member (a field key, an unknown key, or the tag key again)
pub fn derive_tagdeny_first() { reset_all(&D_TAGDENY); put_entry(0, 0, td_tag()); put_entry(1, td_key(), any_val()); tagdeny_run(2); }
pub fn derive_tagdeny_last() { reset_all(&D_TAGDENY); put_entry(0, td_key(), any_val()); put_entry(1, 0, td_tag()); tagdeny_run(2); }


// ---- T13: by-reference conversion functions and `map` on a required field -----------------------------------------
pub fn conv_from_ref(l: &Leaf) -> Wrapped { bump(0); Wrapped(lv(l) + 500) }
pub fn conv_try_ref(l: &Leaf) -> Result<Wrapped, Foreign> { bump(1); let v = lv(l); if v % 2 == 1 { Ok(Wrapped(v + 700)) } else { Err(Foreign(3000 + v as u32, 0)) } }
pub fn map_req(l: Leaf) -> Leaf { bump(2); Leaf(lv(&l) + 1000 - 1) }
#[derive(Deserr)]
#[deserr(error = Rec)]
pub struct Refs13 {
    #[deserr(try_from(&Leaf) = conv_try_ref -> Foreign)]
    pub aaaa: Wrapped,
    #[deserr(from(&Leaf) = conv_from_ref)]
    pub bbbb: Wrapped,
    #[deserr(map = map_req)]
    pub cccc: Leaf,
}
impl Viewed for Refs13 { fn slots(&self) -> [u64; MAXF] { [self.aaaa.0, self.bbbb.0, lv(&self.cccc), 0, 0, 0] } }
pub static S_REFS13: StructDesc = StructDesc { fields: &[
    FieldDesc { key: 0, presence: Presence::Required, ty: FTy::Leaf, missing_fn: false, conv: Conv::TryFrom(1), map: None },
    FieldDesc { key: 1, presence: Presence::Required, ty: FTy::Leaf, missing_fn: false, conv: Conv::From(0), map: None },
    FieldDesc { key: 2, presence: Presence::Required, ty: FTy::Leaf, missing_fn: false, conv: Conv::None, map: Some(2) },
], deny: Deny::No, validate: None };
// three required fields and two members: never accepted (the accepted case is derive_refs13_3, native execution)
pub fn derive_refs13_2() { run_struct_nocover::<Refs13>(&S_REFS13, &D_CONV8, 2) }
pub fn derive_refs13_3() { run_struct::<Refs13>(&S_REFS13, &D_CONV8, 3) }

// ---- T14: container-level `from` (infallible): the intermediate value is deserialized first, then converted exactly once ----
pub fn cont_from(l: Leaf) -> Cfrom14 { bump(6); Cfrom14(lv(&l) + 900) }
#[derive(Deserr)]
#[deserr(error = Rec, from(Leaf) = cont_from)]
pub struct Cfrom14(pub u64);
impl Viewed for Cfrom14 { fn slots(&self) -> [u64; MAXF] { [self.0, 0, 0, 0, 0, 0] } }
pub fn derive_cfrom14() {
    reset_all(&D_CONV8);
    let n = any_val();
    let o = ValuePointerRef::Origin; let l = o.push_index(1);
    let p = Path::ROOT.idx(1);
    let r = <Cfrom14 as Deserr<Rec>>::deserialize_from_value::<KV>(to_value(n), l);
    let mut ex = Expect::EMPTY;
    match n {
        Node::Int(x) => { ex.counters[6] = 1; ex.view[0] = leaf_view(x) + 900; }
        _ => { ex.log.push(report(K_UNEXPECTED, p, 0, 0)); }
    }
    judge(r, &ex, &p);
}


// ---- T15: user-function attributes inside a variant of a tagged enum (the same field code as for structs, reached through the enum) ----
#[derive(Deserr)]
#[deserr(error = Rec, tag = "kind")]
pub enum TagFn {
    Unit,
    VarB {
        #[deserr(try_from(Leaf) = conv_try -> Foreign)]
        xxxx: Wrapped,
        #[deserr(default, map = map_fn)]
        yyyy: Option<Leaf>,
    },
}
impl Viewed for TagFn {
    fn slots(&self) -> [u64; MAXF] { match self { TagFn::Unit => [1, 0, 0, 0, 0, 0], TagFn::VarB { xxxx, yyyy } => [2, xxxx.0, ov(yyyy), 0, 0, 0] } }
}
pub static S_TF_B: StructDesc = StructDesc { fields: &[
    FieldDesc { key: 4, presence: Presence::Required, ty: FTy::Leaf, missing_fn: false, conv: Conv::TryFrom(1), map: None },
    FieldDesc { key: 5, presence: Presence::Default(0), ty: FTy::OptLeaf, missing_fn: false, conv: Conv::None, map: Some(2) },
], deny: Deny::No, validate: None };
pub static E_TAGFN: EnumDesc = EnumDesc { tag: 0, variants: &[(1, VariantDesc::Unit), (2, VariantDesc::Named(&S_TF_B))] };
/// tag first or last, two other members (native execution only)
pub fn derive_tagfn_3() {
    reset_all(&D_TAGDENY);
    let tagpos = nd::below(3);
    let mut i = 0u8;
    while i < 3 { if i == tagpos { put_entry(i, 0, Node::Str(1 + nd::below(2))); } else { put_entry(i, [4u8, 5, 7][nd::below(3) as usize], any_val()); } i += 1; }
    let o = ValuePointerRef::Origin; let l = o.push_index(1);
    let p = Path::ROOT.idx(1);
    let r = <TagFn as Deserr<Rec>>::deserialize_from_value::<KV>(to_value(Node::Map(0, 3)), l);
    let mut ex = Expect::EMPTY;
    reference::enum_spec(&E_TAGFN, Node::Map(0, 3), p, &mut ex);
    judge(r, &ex, &p);
}


// ---- T16: container-level try_from whose function returns the container's own error type -----------------------------
pub fn cont_try_rec(l: Leaf) -> Result<Cont9b, Rec> { bump(6); let v = lv(&l); if v % 2 == 1 { Ok(Cont9b(v + 900)) } else { Err(Rec::EMPTY) } }
#[derive(Deserr)]
#[deserr(error = Rec, try_from(Leaf) = cont_try_rec -> Rec)]
pub struct Cont9b(pub u64);
impl Viewed for Cont9b { fn slots(&self) -> [u64; MAXF] { [self.0, 0, 0, 0, 0, 0] } }
pub fn derive_cont9b() {
    reset_all(&D_CONV8);
    let n = any_val();
    let o = ValuePointerRef::Origin; let l = o.push_index(1);
    let p = Path::ROOT.idx(1);
    let r = <Cont9b as Deserr<Rec>>::deserialize_from_value::<KV>(to_value(n), l);
    let mut ex = Expect::EMPTY;
    match n {
        // the function's error (an error value without recorded calls) is handed to the error type at the container's location
        Node::Int(x) => { ex.counters[6] = 1; let v = leaf_view(x); if v % 2 == 1 { ex.view[0] = v + 900; } else { ex.log.push(handover(p)); } }
        _ => { ex.log.push(report(K_UNEXPECTED, p, 0, 0)); }
    }
    if let (Err(e), Node::Int(x)) = (&r, n) { if leaf_view(x) % 2 == 0 { oblige!(e.n == 1 && e.ev[0].kind() == K_HANDOVER && e.ev[0].path() == p, "C04,C11:container_conversion_failure_is_handed_over_once_at_the_container_location"); } }
    judge(r, &ex, &p);
}


// ---- T17: rename_all = camelCase on identifiers that are not plain snake_case (already camelCase, mixed) ---------------
#[derive(Deserr)]
#[deserr(rename_all = camelCase, deny_unknown_fields)]
pub struct Camel2 { pub abC_d: Leaf, pub pqRs: Option<Leaf> }
impl Viewed for Camel2 { fn slots(&self) -> [u64; MAXF] { [lv(&self.abC_d), ov(&self.pqRs), 0, 0, 0, 0] } }
// by the statement: abC_d -> abCD (words ab | C | d), pqRs -> pqRs (already camelCase); near-misses: all-lowercase forms, the identifier
pub static D_CAMEL2: [&str; 5] = ["abCD", "pqRs", "abcD", "pqrs", "abC_d"];
pub static S_CAMEL2: StructDesc = StructDesc { fields: &[
    FieldDesc { key: 0, presence: Presence::Required, ty: FTy::Leaf, missing_fn: false, conv: Conv::None, map: None },
    FieldDesc { key: 1, presence: Presence::Required, ty: FTy::OptLeaf, missing_fn: false, conv: Conv::None, map: None },
], deny: Deny::Default, validate: None };
pub fn derive_camel2_2() { run_struct::<Camel2>(&S_CAMEL2, &D_CAMEL2, 2) }


// ---- T18: variants carrying BOTH rename and rename_all, in both orders of writing (variant attribute merging) -----------
#[derive(Deserr)]
#[deserr(tag = "kind", deny_unknown_fields)]
pub enum TagBoth {
    #[deserr(rename_all = lowercase, rename = "hhhh")]
    VarH { ZzZz: Leaf },
    #[deserr(rename = "iiii", rename_all = lowercase)]
    VarI { WwWw: Leaf },
    #[deserr(rename_all = lowercase)]
    #[deserr(rename = "jjjj")]
    VarJ { QqQq: Leaf },
    VarK { RrRr: Leaf },
}
impl Viewed for TagBoth {
    fn slots(&self) -> [u64; MAXF] { match self { TagBoth::VarH { ZzZz } => [1, lv(ZzZz), 0, 0, 0, 0], TagBoth::VarI { WwWw } => [2, lv(WwWw), 0, 0, 0, 0], TagBoth::VarJ { QqQq } => [3, lv(QqQq), 0, 0, 0, 0], TagBoth::VarK { RrRr } => [4, lv(RrRr), 0, 0, 0, 0] } }
}
// effective variant names: hhhh, iiii, jjjj, VarK; effective field keys: zzzz, wwww, qqqq (the variants' own lowercase), RrRr
pub static D_TAGBOTH: [&str; 16] = ["kind", "hhhh", "iiii", "jjjj", "VarK", "zzzz", "wwww", "qqqq", "RrRr", "VarH", "VarI", "VarJ", "ZzZz", "WwWw", "QqQq", "rrrr"];
pub static S_TB_H: StructDesc = StructDesc { fields: &[FieldDesc { key: 5, presence: Presence::Required, ty: FTy::Leaf, missing_fn: false, conv: Conv::None, map: None }], deny: Deny::Default, validate: None };
pub static S_TB_I: StructDesc = StructDesc { fields: &[FieldDesc { key: 6, presence: Presence::Required, ty: FTy::Leaf, missing_fn: false, conv: Conv::None, map: None }], deny: Deny::Default, validate: None };
pub static S_TB_J: StructDesc = StructDesc { fields: &[FieldDesc { key: 7, presence: Presence::Required, ty: FTy::Leaf, missing_fn: false, conv: Conv::None, map: None }], deny: Deny::Default, validate: None };
pub static S_TB_K: StructDesc = StructDesc { fields: &[FieldDesc { key: 8, presence: Presence::Required, ty: FTy::Leaf, missing_fn: false, conv: Conv::None, map: None }], deny: Deny::Default, validate: None };
pub static E_TAGBOTH: EnumDesc = EnumDesc { tag: 0, variants: &[(1, VariantDesc::Named(&S_TB_H)), (2, VariantDesc::Named(&S_TB_I)), (3, VariantDesc::Named(&S_TB_J)), (4, VariantDesc::Named(&S_TB_K))] };
/// native execution only: tag (any dictionary word) first or last + one other member (any dictionary word)
pub fn derive_tagboth_2() {
    reset_all(&D_TAGBOTH);
    let tag = Node::Str(1 + nd::below(11));
    let k = nd::below(16);
    if nd::bool() { put_entry(0, 0, tag); put_entry(1, k, any_val()); } else { put_entry(0, k, any_val()); put_entry(1, 0, tag); }
    let o = ValuePointerRef::Origin; let l = o.push_index(1); let p = Path::ROOT.idx(1);
    let r = <TagBoth as Deserr<Rec>>::deserialize_from_value::<KV>(to_value(Node::Map(0, 2)), l);
    let mut ex = Expect::EMPTY;
    reference::enum_spec(&E_TAGBOTH, Node::Map(0, 2), p, &mut ex);
    match (&r, ex.log.n) { (Err(e), n) if n > 0 => { oblige!(agree_on(e, &ex.log, is_tag_ev), "C04,C10:tag_and_variant_reports"); } (Ok(_), n) if n > 0 => { oblige!(!any_ev(&ex.log, is_tag_ev), "C10:accepted_although_the_tag_or_variant_must_be_reported"); } _ => {} }
    judge(r, &ex, &p);
}

// ---- T19: `validate` on enums (internally tagged with a unit variant; unit-only read from a string) ---------------------
pub fn validate_tagv(v: TagVal, loc: ValuePointerRef) -> Result<TagVal, Foreign> {
    bump(3);
    let sl = v.slots(); let mut s = 0u64; let mut i = 0; while i < MAXF { s += sl[i]; i += 1; }
    if s % 2 == 1 { Err(Foreign(4000 + (s as u32 % 1000), pathsig(&path_of(loc)) & 0xfff)) } else { Ok(v) }
}
#[derive(Deserr)]
#[deserr(error = Rec, tag = "kind", validate = validate_tagv -> Foreign)]
pub enum TagVal { Unit, Unib, VarB { xxxx: Leaf } }
impl Viewed for TagVal {
    fn slots(&self) -> [u64; MAXF] { match self { TagVal::Unit => [1, 0, 0, 0, 0, 0], TagVal::Unib => [2, 0, 0, 0, 0, 0], TagVal::VarB { xxxx } => [3, lv(xxxx), 0, 0, 0, 0] } }
}
pub static D_TAGVAL: [&str; 5] = ["kind", "Unit", "Unib", "VarB", "xxxx"];
pub static S_TV_B: StructDesc = StructDesc { fields: &[FieldDesc { key: 4, presence: Presence::Required, ty: FTy::Leaf, missing_fn: false, conv: Conv::None, map: None }], deny: Deny::No, validate: None };
pub static E_TAGVAL: EnumDesc = EnumDesc { tag: 0, variants: &[(1, VariantDesc::Unit), (2, VariantDesc::Unit), (3, VariantDesc::Named(&S_TV_B))] };
/// validation runs exactly once when the enum was built (whatever the variant), on the finished value, at the enum's location
fn validated(ex: &mut Expect, p: Path) {
    if ex.log.n == 0 {
        ex.counters[3] += 1;
        let mut s = 0u64; let mut i = 0; while i < MAXF { s += ex.view[i]; i += 1; }
        if s % 2 == 1 { ex.log.push(report(K_FOREIGN, p, 4000 + (s as u32 % 1000), pathsig(&p) & 0xfff)); }
    }
}
pub fn derive_tagval_2() {
    reset_all(&D_TAGVAL);
    let tag = match nd::below(4) { 0 => Node::Str(1), 1 => Node::Str(2), 2 => Node::Str(3), _ => Node::Int(0) };
    let k = if nd::bool() { 4 } else { 0 };
    if nd::bool() { put_entry(0, 0, tag); put_entry(1, k, any_val()); } else { put_entry(0, k, any_val()); put_entry(1, 0, tag); }
    let o = ValuePointerRef::Origin; let l = o.push_index(1); let p = Path::ROOT.idx(1);
    let r = <TagVal as Deserr<Rec>>::deserialize_from_value::<KV>(to_value(Node::Map(0, 2)), l);
    let mut ex = Expect::EMPTY;
    reference::enum_spec(&E_TAGVAL, Node::Map(0, 2), p, &mut ex);
    if ex.log.n == 0 { oblige!(counters()[3] == 1, "C11:validate_runs_exactly_once_when_the_value_was_built_whatever_the_variant"); }
    validated(&mut ex, p);
    judge(r, &ex, &p);
}
pub fn validate_unitsv(v: UnitsV, loc: ValuePointerRef) -> Result<UnitsV, Foreign> {
    bump(3);
    let s = v.slots()[0];
    if s % 2 == 1 { Err(Foreign(4000 + (s as u32 % 1000), pathsig(&path_of(loc)) & 0xfff)) } else { Ok(v) }
}
#[derive(Deserr, Debug, PartialEq, Eq)]
#[deserr(error = Rec, validate = validate_unitsv -> Foreign)]
pub enum UnitsV { Aaaa, Bbbb }
impl Viewed for UnitsV { fn slots(&self) -> [u64; MAXF] { [match self { UnitsV::Aaaa => 1, UnitsV::Bbbb => 2 }, 0, 0, 0, 0, 0] } }
pub static D_UNITSV: [&str; 3] = ["Aaaa", "Bbbb", "aaaa"];
pub fn derive_unitsv() {
    reset_all(&D_UNITSV);
    let n = match nd::below(3) { 0 => Node::Str(nd::below(3)), 1 => Node::Int(1), _ => Node::Null };
    let o = ValuePointerRef::Origin; let l = o.push_index(1); let p = Path::ROOT.idx(1);
    let r = <UnitsV as Deserr<Rec>>::deserialize_from_value::<KV>(to_value(n), l);
    let mut ex = Expect::EMPTY;
    reference::unit_enum_spec(&[0, 1], n, p, &mut ex);
    if ex.log.n == 0 { oblige!(counters()[3] == 1, "C11:validate_runs_exactly_once_when_the_value_was_built_whatever_the_variant"); }
    validated(&mut ex, p);
    judge(r, &ex, &p);
}


// ---- T22: identifiers the renaming rules must treat exactly: non-ASCII capitals under lowercase, underscores / digits in variant names under camelCase ----
#[derive(Deserr)]
#[deserr(rename_all = lowercase)]
#[allow(non_snake_case, uncommon_codepoints, mixed_script_confusables)]
pub struct LowerOdd {
    pub XÉchelle: Leaf,
    #[deserr(default = Leaf(4))]
    pub TÉ_CRAN: Leaf,
    pub X2_Y: Leaf,
}
#[allow(non_snake_case)]
impl Viewed for LowerOdd { fn slots(&self) -> [u64; MAXF] { [lv(&self.XÉchelle), lv(&self.TÉ_CRAN), lv(&self.X2_Y), 0, 0, 0] } }
pub static D_LOWERODD: [&str; 7] = ["xéchelle", "té_cran", "x2_y", "xÉchelle", "tÉ_cran", "X2_Y", "XÉchelle"];
pub static S_LOWERODD: StructDesc = StructDesc { fields: &[
    FieldDesc { key: 0, presence: Presence::Required, ty: FTy::Leaf, missing_fn: false, conv: Conv::None, map: None },
    FieldDesc { key: 1, presence: Presence::Default(5), ty: FTy::Leaf, missing_fn: false, conv: Conv::None, map: None },
    FieldDesc { key: 2, presence: Presence::Required, ty: FTy::Leaf, missing_fn: false, conv: Conv::None, map: None },
], deny: Deny::No, validate: None };
pub fn derive_lowerodd_2() { run_struct_nocover::<LowerOdd>(&S_LOWERODD, &D_LOWERODD, 2) }
pub fn derive_lowerodd_3() { run_struct_nocover::<LowerOdd>(&S_LOWERODD, &D_LOWERODD, 3) }

/// camelCase over identifiers with digits: convert_case also starts a new word at a digit followed by a letter
#[derive(Deserr)]
#[deserr(rename_all = camelCase, deny_unknown_fields)]
pub struct CamelOdd {
    pub a4addr: Leaf,
    #[deserr(default = Leaf(4))]
    pub x2d: Leaf,
    pub foo_bar9: Leaf,
}
impl Viewed for CamelOdd { fn slots(&self) -> [u64; MAXF] { [lv(&self.a4addr), lv(&self.x2d), lv(&self.foo_bar9), 0, 0, 0] } }
pub static D_CAMELODD: [&str; 7] = ["a4Addr", "x2D", "fooBar9", "a4addr", "x2d", "foo_bar9", "A4Addr"];
pub static S_CAMELODD: StructDesc = StructDesc { fields: &[
    FieldDesc { key: 0, presence: Presence::Required, ty: FTy::Leaf, missing_fn: false, conv: Conv::None, map: None },
    FieldDesc { key: 1, presence: Presence::Default(5), ty: FTy::Leaf, missing_fn: false, conv: Conv::None, map: None },
    FieldDesc { key: 2, presence: Presence::Required, ty: FTy::Leaf, missing_fn: false, conv: Conv::None, map: None },
], deny: Deny::Default, validate: None };
pub fn derive_camelodd_2() { run_struct_nocover::<CamelOdd>(&S_CAMELODD, &D_CAMELODD, 2) }
pub fn derive_camelodd_3() { run_struct_nocover::<CamelOdd>(&S_CAMELODD, &D_CAMELODD, 3) }

#[derive(Deserr, Debug, PartialEq, Eq)]
#[deserr(rename_all = camelCase)]
#[allow(non_camel_case_types)]
pub enum UnitsOdd { Http_Server, read_write, V2Beta, #[deserr(rename = "x_y")] Plain_Old }
impl Viewed for UnitsOdd { fn slots(&self) -> [u64; MAXF] { [match self { UnitsOdd::Http_Server => 1, UnitsOdd::read_write => 2, UnitsOdd::V2Beta => 3, UnitsOdd::Plain_Old => 4 }, 0, 0, 0, 0, 0] } }
pub static D_UNITSODD: [&str; 10] = ["httpServer", "readWrite", "v2Beta", "x_y", "http_Server", "read_write", "Http_Server", "plainOld", "V2Beta", "ReadWrite"];
pub fn derive_unitsodd() {
    reset_all(&D_UNITSODD);
    let n = match nd::below(3) { 0 => Node::Str(nd::below(10)), 1 => Node::Int(1), _ => Node::Null };
    let o = ValuePointerRef::Origin; let l = o.push_index(1); let p = Path::ROOT.idx(1);
    let r = <UnitsOdd as Deserr<Rec>>::deserialize_from_value::<KV>(to_value(n), l);
    let mut ex = Expect::EMPTY;
    reference::unit_enum_spec(&[0, 1, 2, 3], n, p, &mut ex);
    if let (Ok(v), Node::Str(i)) = (&r, n) { oblige!(v.slots()[0] == i as u64 + 1, "C10:tag_selects_exactly_the_named_variant"); }
    match (&r, ex.log.n) { (Err(e), k) if k > 0 => { oblige!(agree_on(e, &ex.log, is_tag_ev), "C04,C10:tag_and_variant_reports"); } (Ok(_), k) if k > 0 => { oblige!(!any_ev(&ex.log, is_tag_ev), "C10:accepted_although_the_tag_or_variant_must_be_reported"); } _ => {} }
    judge_nocover(r, &ex, &p);
}

// ---- T23: `map` on a field declared AFTER a skipped field (the derive moves skipped fields last: per-field lists must move together) ----
#[derive(Deserr)]
#[deserr(error = Rec)]
pub struct MapSkip {
    pub aaaa: Leaf,
    #[deserr(skip)]
    pub ssss: Leaf,
    #[deserr(map = map_req)]
    pub cccc: Leaf,
    #[deserr(default = Leaf(4))]
    pub dddd: Leaf,
}
impl Viewed for MapSkip { fn slots(&self) -> [u64; MAXF] { [lv(&self.aaaa), lv(&self.ssss), lv(&self.cccc), lv(&self.dddd), 0, 0] } }
pub static D_MAPSKIP: [&str; 5] = ["aaaa", "cccc", "dddd", "ssss", "bbbb"];
pub static S_MAPSKIP: StructDesc = StructDesc { fields: &[
    FieldDesc { key: 0, presence: Presence::Required, ty: FTy::Leaf, missing_fn: false, conv: Conv::None, map: None },
    FieldDesc { key: 255, presence: Presence::Skipped(1), ty: FTy::Leaf, missing_fn: false, conv: Conv::None, map: None },
    FieldDesc { key: 1, presence: Presence::Required, ty: FTy::Leaf, missing_fn: false, conv: Conv::None, map: Some(2) },
    FieldDesc { key: 2, presence: Presence::Default(5), ty: FTy::Leaf, missing_fn: false, conv: Conv::None, map: None },
], deny: Deny::No, validate: None };
pub fn derive_mapskip_2() { run_struct::<MapSkip>(&S_MAPSKIP, &D_MAPSKIP, 2) }
pub fn derive_mapskip_3() { run_struct::<MapSkip>(&S_MAPSKIP, &D_MAPSKIP, 3) }

// ---- T20: an internally tagged enum whose variants are ALL unit variants ---------------------------------------------------
#[derive(Deserr)]
#[deserr(tag = "kind")]
pub enum TagUnits { Aaaa, Bbbb }
impl Viewed for TagUnits { fn slots(&self) -> [u64; MAXF] { [match self { TagUnits::Aaaa => 1, TagUnits::Bbbb => 2 }, 0, 0, 0, 0, 0] } }
pub static D_TAGUNITS: [&str; 5] = ["kind", "Aaaa", "Bbbb", "aaaa", "xxxx"];
pub static E_TAGUNITS: EnumDesc = EnumDesc { tag: 0, variants: &[(1, VariantDesc::Unit), (2, VariantDesc::Unit)] };
pub fn derive_tagunits_2() {
    reset_all(&D_TAGUNITS);
    let tag = match nd::below(5) { 0 => Node::Str(1), 1 => Node::Str(2), 2 => Node::Str(3), 3 => Node::Str(4), _ => Node::Int(0) };
    let k = if nd::bool() { 4 } else { 0 };
    if nd::bool() { put_entry(0, 0, tag); put_entry(1, k, any_val()); } else { put_entry(0, k, any_val()); put_entry(1, 0, tag); }
    let o = ValuePointerRef::Origin; let l = o.push_index(1); let p = Path::ROOT.idx(1);
    let r = <TagUnits as Deserr<Rec>>::deserialize_from_value::<KV>(to_value(Node::Map(0, 2)), l);
    let mut ex = Expect::EMPTY;
    reference::enum_spec(&E_TAGUNITS, Node::Map(0, 2), p, &mut ex);
    match (&r, ex.log.n) { (Err(e), n) if n > 0 => { oblige!(agree_on(e, &ex.log, is_tag_ev), "C04,C10:tag_and_variant_reports"); } (Ok(_), n) if n > 0 => { oblige!(!any_ev(&ex.log, is_tag_ev), "C10:accepted_although_the_tag_or_variant_must_be_reported"); } _ => {} }
    judge(r, &ex, &p);
}

// ---- T21: default together with missing_field_error on one field; a tool attribute written before the deserr attribute ------
#[derive(Deserr)]
#[deserr(error = Rec)]
pub struct DefMiss {
    #[deserr(default = Leaf(9), missing_field_error = miss_fn)]
    pub aaaa: Leaf,
    #[rustfmt::skip]
    #[deserr(rename = "zzzz")]
    pub bbbb: Leaf,
    #[allow(dead_code)]
    #[deserr(default)]
    pub cccc: Option<Leaf>,
}
impl Viewed for DefMiss { fn slots(&self) -> [u64; MAXF] { [lv(&self.aaaa), lv(&self.bbbb), ov(&self.cccc), 0, 0, 0] } }
pub static D_DEFMISS: [&str; 5] = ["aaaa", "zzzz", "cccc", "bbbb", "Aaaa"];
pub static S_DEFMISS: StructDesc = StructDesc { fields: &[
    // a field with a default is never missing: its missing_field_error function is never called
    FieldDesc { key: 0, presence: Presence::Default(10), ty: FTy::Leaf, missing_fn: true, conv: Conv::None, map: None },
    FieldDesc { key: 1, presence: Presence::Required, ty: FTy::Leaf, missing_fn: false, conv: Conv::None, map: None },
    FieldDesc { key: 2, presence: Presence::Default(0), ty: FTy::OptLeaf, missing_fn: false, conv: Conv::None, map: None },
], deny: Deny::No, validate: None };
pub fn derive_defmiss_2() { run_struct::<DefMiss>(&S_DEFMISS, &D_DEFMISS, 2) }

// ---- C15: member order never changes the outcome (relational: same members, both orders, keep-going) -----------
pub fn same_multiset(a: &Rec, b: &Rec) -> bool {
    if a.n != b.n { return false; }
    let mut used = [false; CAP];
    let mut i = 0;
    while i < a.n as usize && i < CAP {
        let mut found = false; let mut j = 0;
        while j < b.n as usize && j < CAP { if !used[j] && !found && a.ev[i] == b.ev[j] { used[j] = true; found = true; } j += 1; }
        if !found { return false; }
        i += 1;
    }
    true
}
fn order_body<T: Deserr<Rec> + Viewed>(dict: &'static [&'static str], k0: u8, v0: Node, k1: u8, v1: Node) {
    nd::assume(k0 != k1);   // distinct keys: a permutation of the members of an object
    reset_all(dict); rec::set_policy(1);
    put_entry(0, k0, v0); put_entry(1, k1, v1);
    let o = ValuePointerRef::Origin; let l = o.push_index(1);
    let r1 = <T as Deserr<Rec>>::deserialize_from_value::<KV>(to_value(Node::Map(0, 2)), l);
    rec::reset(); rec::set_policy(1);
    put_entry(0, k1, v1); put_entry(1, k0, v0);
    let r2 = <T as Deserr<Rec>>::deserialize_from_value::<KV>(to_value(Node::Map(0, 2)), l);
    match (r1, r2) {
        (Ok(a), Ok(b)) => { oblige!(eq_slots(&a.slots(), &b.slots()), "C15:same_value_for_both_member_orders"); }
        (Err(a), Err(b)) => { oblige!(same_multiset(&a, &b), "C15:same_set_of_reports_for_both_member_orders"); }
        _ => { oblige!(false, "C15:same_outcome_for_both_member_orders"); }
    }
}
pub fn order_camel() { order_body::<Camel>(&D_CAMEL, nd::below(6), any_val(), nd::below(6), any_val()) }
pub fn order_tagged() { order_body::<Tagged>(&D_TAGGED, 0, any_tag_val(), any_field_key(), any_val()) }
pub fn order_conv8() { order_body::<Conv8>(&D_CONV8, nd::below(4), any_val(), nd::below(4), any_val()) }


/// three members, every one of the 6 orders (native enumeration only; the 2-member bodies above are also Kani harnesses)
fn order3_body<T: Deserr<Rec> + Viewed>(dict: &'static [&'static str], k: [u8; 3], v: [Node; 3]) {
    nd::assume(k[0] != k[1] && k[0] != k[2] && k[1] != k[2]);
    const PERMS: [[usize; 3]; 6] = [[0, 1, 2], [0, 2, 1], [1, 0, 2], [1, 2, 0], [2, 0, 1], [2, 1, 0]];
    let o = ValuePointerRef::Origin; let l = o.push_index(1);
    let run = |p: &[usize; 3]| { reset_all(dict); rec::set_policy(1); let mut i = 0; while i < 3 { put_entry(i as u8, k[p[i]], v[p[i]]); i += 1; } <T as Deserr<Rec>>::deserialize_from_value::<KV>(to_value(Node::Map(0, 3)), l) };
    let first = run(&PERMS[0]);
    let mut q = 1;
    while q < 6 {
        let other = run(&PERMS[q]);
        match (&first, &other) {
            (Ok(a), Ok(b)) => { oblige!(eq_slots(&a.slots(), &b.slots()), "C15:same_value_for_both_member_orders"); }
            (Err(a), Err(b)) => { oblige!(same_multiset(a, b), "C15:same_set_of_reports_for_both_member_orders"); }
            _ => { oblige!(false, "C15:same_outcome_for_both_member_orders"); }
        }
        q += 1;
    }
}
/// three members of which at least two carry the SAME key (an order-preserving source can present that), every one of the 6 orders:
/// the multiset of reports is the same whatever the order (the value on success is not compared: the last occurrence wins)
fn order3_dups_body<T: Deserr<Rec> + Viewed>(dict: &'static [&'static str], k: [u8; 3], v: [Node; 3]) {
    nd::assume(k[0] == k[1] || k[0] == k[2] || k[1] == k[2]);
    const PERMS: [[usize; 3]; 6] = [[0, 1, 2], [0, 2, 1], [1, 0, 2], [1, 2, 0], [2, 0, 1], [2, 1, 0]];
    let o = ValuePointerRef::Origin; let l = o.push_index(1);
    let run = |p: &[usize; 3]| { reset_all(dict); rec::set_policy(1); let mut i = 0; while i < 3 { put_entry(i as u8, k[p[i]], v[p[i]]); i += 1; } <T as Deserr<Rec>>::deserialize_from_value::<KV>(to_value(Node::Map(0, 3)), l) };
    let first = run(&PERMS[0]);
    let mut q = 1;
    while q < 6 {
        let other = run(&PERMS[q]);
        match (&first, &other) {
            (Ok(_), Ok(_)) => {}
            (Err(a), Err(b)) => { oblige!(same_multiset(a, b), "C15:same_set_of_reports_for_both_member_orders"); }
            _ => { oblige!(false, "C15:same_outcome_for_both_member_orders"); }
        }
        q += 1;
    }
}
pub fn order_camel_3d() { order3_dups_body::<Camel>(&D_CAMEL, [nd::below(6), nd::below(6), nd::below(6)], [any_val(), any_val(), any_val()]) }
pub fn order_deny4_3d() { order3_dups_body::<Deny4>(&D_DENY4, [nd::below(5), nd::below(5), nd::below(5)], [any_val(), any_val(), any_val()]) }
pub fn order_fns5_3d() { order3_dups_body::<Fns5>(&D_FNS5, [nd::below(5), nd::below(5), nd::below(5)], [any_val(), any_val(), any_val()]) }
pub fn order_camel_3() { order3_body::<Camel>(&D_CAMEL, [nd::below(6), nd::below(6), nd::below(6)], [any_val(), any_val(), any_val()]) }
pub fn order_lower_3() { order3_body::<Lower>(&D_LOWER, [nd::below(5), nd::below(5), nd::below(5)], [any_val(), any_val(), any_val()]) }
pub fn order_deffirst_3() { order3_body::<DefFirst>(&D_DEFFIRST, [nd::below(5), nd::below(5), nd::below(5)], [any_val(), any_val(), any_val()]) }
pub fn order_tagged_3() { order3_body::<Tagged>(&D_TAGGED, [0, any_field_key(), any_field_key()], [any_tag_val(), any_val(), any_val()]) }
pub fn order_fns5_3() { order3_body::<Fns5>(&D_FNS5, [nd::below(5), nd::below(5), nd::below(5)], [any_val(), any_val(), any_val()]) }
pub fn order_tagdeny_3() { order3_body::<TagDeny>(&D_TAGDENY, [0, td_key(), td_key()], [td_tag(), any_val(), any_val()]) }

pub fn registry() -> Vec<(&'static str, crate::Body)> {
    vec![("derive_plain_2", derive_plain_2 as crate::Body), ("derive_camel_2", derive_camel_2), ("derive_lower_2", derive_lower_2), ("derive_deny4_2", derive_deny4_2),
         ("derive_fns5_2", derive_fns5_2), ("derive_conv8_2", derive_conv8_2), ("derive_conv8_3", derive_conv8_3), ("derive_cont9", derive_cont9),
         ("derive_tagged_first", derive_tagged_first), ("derive_tagged_last", derive_tagged_last), ("derive_tagged_absent", derive_tagged_absent), ("derive_tagged_not_a_map", derive_tagged_not_a_map),
         ("derive_units", derive_units), ("derive_nest", derive_nest), ("derive_deffirst_2", derive_deffirst_2), ("derive_deffirst_3", derive_deffirst_3), ("derive_ferr10_2", derive_ferr10_2),
         ("derive_refs13_2", derive_refs13_2), ("derive_refs13_3", derive_refs13_3), ("derive_cfrom14", derive_cfrom14), ("derive_tagfn_3", derive_tagfn_3), ("derive_tagunits_2", derive_tagunits_2), ("derive_defmiss_2", derive_defmiss_2), ("derive_tagboth_2", derive_tagboth_2), ("derive_tagval_2", derive_tagval_2), ("derive_unitsv", derive_unitsv), ("derive_camel2_2", derive_camel2_2), ("derive_cont9b", derive_cont9b), ("derive_tagdeny_first", derive_tagdeny_first), ("derive_tagdeny_last", derive_tagdeny_last), ("order_camel", order_camel), ("order_tagged", order_tagged), ("order_conv8", order_conv8),
         ("order_camel_3", order_camel_3), ("order_lower_3", order_lower_3), ("order_deffirst_3", order_deffirst_3), ("order_tagged_3", order_tagged_3), ("order_tagdeny_3", order_tagdeny_3), ("order_fns5_3", order_fns5_3), ("derive_lowerodd_2", derive_lowerodd_2), ("derive_lowerodd_3", derive_lowerodd_3), ("derive_unitsodd", derive_unitsodd), ("derive_mapskip_2", derive_mapskip_2), ("derive_mapskip_3", derive_mapskip_3), ("derive_camelodd_2", derive_camelodd_2), ("derive_camelodd_3", derive_camelodd_3), ("order_camel_3d", order_camel_3d), ("order_deny4_3d", order_deny4_3d), ("order_fns5_3d", order_fns5_3d)]
}

#[cfg(kani)]
mod proofs {
    macro_rules! proof { ($($n:ident),*) => { $( mod $n { #[kani::proof] #[kani::unwind(10)] #[kani::stub(alloc::fmt::format, crate::fake_format)] fn check() { super::super::$n() } } )* } }
    proof!(derive_plain_2, derive_camel_2, derive_lower_2, derive_deny4_2, derive_fns5_2, derive_conv8_2, derive_cont9,
           derive_units, derive_nest, order_camel, order_conv8, derive_deffirst_2, derive_ferr10_2, derive_refs13_2, derive_cfrom14, derive_cont9b);
    macro_rules! proof14 { ($($n:ident),*) => { $( mod $n { #[kani::proof] #[kani::unwind(14)] #[kani::stub(alloc::fmt::format, crate::fake_format)] fn check() { super::super::$n() } } )* } }
    proof14!(derive_tagged_first, derive_tagged_last, derive_tagged_absent, derive_tagged_not_a_map, order_tagged, derive_tagdeny_first);
    // derive_tagdeny_last (like derive_tagged_last): > 9 GB under CBMC; covered by exhaustive native execution only
    /// thorough tier only
    mod derive_conv8_3 { #[kani::proof] #[kani::unwind(10)] #[kani::stub(alloc::fmt::format, crate::fake_format)] fn check() { super::super::derive_conv8_3() } }
}
