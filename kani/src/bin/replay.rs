//! Native replay of a harness body on concrete values:  replay <harness> <hex>,<hex>,...   (one hex string per
//! nondeterministic value, in call order).  Prints `REPLAY-FAILED <obligation>` lines, then a verdict line.
use deserr_verif_harness::{registry, support::nd};
fn unhex(s: &str) -> Vec<u8> {
    let s = s.trim();
    (0..s.len() / 2).map(|i| u8::from_str_radix(&s[2 * i..2 * i + 2], 16).unwrap()).collect()
}
#[cfg(kani)]
fn main() {}
#[cfg(not(kani))]
fn main() {
    let args: Vec<String> = std::env::args().collect();
    if args.len() < 2 { eprintln!("usage: replay <harness> [hex,hex,...]"); std::process::exit(2); }
    if args[1] == "--list" { for (n, _) in registry() { println!("{n}"); } return; }
    if args[1] == "--enumerate" {
        // replay --enumerate <harness> [max-runs]: exhaustive native walk of the harness's decision tree
        let Some((_, body)) = registry().into_iter().find(|(n, _)| *n == args[2]) else { eprintln!("unknown harness {}", args[2]); std::process::exit(2); };
        let max: u64 = args.get(3).and_then(|s| s.parse().ok()).unwrap_or(50_000_000);
        // optional: only stop at a failure that names this property id (failures of other properties are counted and skipped)
        let want: Option<String> = args.get(4).cloned();
        let mut other_failures = 0u64;
        let mut first_other: Option<(Vec<String>, Vec<u8>)> = None;
        nd::enum_start();
        let mut runs = 0u64;
        let mut valid_runs = 0u64;
        loop {
            nd::enum_begin_run();
            let r = std::panic::catch_unwind(|| body());
            runs += 1;
            let failed = nd::FAILED.with(|f| f.borrow().clone());
            let valid = !nd::ASSUME_FAILED.with(|f| f.get());
            if valid { valid_runs += 1; }
            if valid && (!failed.is_empty() || r.is_err()) {
                if let Some(w) = &want {
                    let mine = failed.iter().any(|f| f.split(':').next().map_or(false, |ids| ids.split(',').any(|i| i == w))) || (r.is_err() && w == "C12");
                    if !mine {
                        other_failures += 1;
                        if first_other.is_none() { first_other = Some((failed.clone(), nd::enum_script())); }
                        if !nd::enum_advance() || runs >= max { break; }
                        continue;
                    }
                }
                let script = nd::enum_script();
                println!("ENUM-FAILED after {runs} runs: {}", failed.join(" | "));
                if r.is_err() { println!("ENUM-FAILED panic in the code under test"); }
                println!("ENUM-VALUES {}", script.iter().map(|b| format!("{b:02x}")).collect::<Vec<_>>().join(","));
                std::process::exit(1);
            }
            if !nd::enum_advance() || runs >= max { break; }
        }
        if other_failures > 0 {
            let (f, sc) = first_other.unwrap();
            println!("ENUM-OTHER {other_failures} runs failed obligations of other properties only, e.g. {} with {}", f.join(" | "), sc.iter().map(|b| format!("{b:02x}")).collect::<Vec<_>>().join(","));
        }
        if valid_runs == 0 { println!("ENUM-VACUOUS {runs} runs, none satisfied the harness's assumptions"); std::process::exit(3); }
        println!("ENUM-OK {valid_runs} runs, no obligation failed");
        return;
    }
    let vals: Vec<Vec<u8>> = if args.len() > 2 && !args[2].is_empty() { args[2].split(',').map(unhex).collect() } else { vec![] };
    let Some((_, body)) = registry().into_iter().find(|(n, _)| *n == args[1]) else { eprintln!("unknown harness {}", args[1]); std::process::exit(2); };
    nd::load(vals);
    let r = std::panic::catch_unwind(|| body());
    let failed = nd::FAILED.with(|f| f.borrow().clone());
    if nd::ASSUME_FAILED.with(|f| f.get()) { println!("REPLAY-INVALID an assumption of the harness does not hold for these values"); std::process::exit(3); }
    if nd::EXHAUSTED.with(|f| f.get()) { println!("REPLAY-NOTE the harness asked for more values than were recorded (zeros used)"); }
    for f in &failed { println!("REPLAY-FAILED {f}"); }
    if r.is_err() { println!("REPLAY-FAILED panic in the code under test"); }
    if failed.is_empty() && r.is_ok() { println!("REPLAY-OK no obligation failed"); std::process::exit(0); }
    std::process::exit(1);
}
