//! C13 (scalar part, complete) and the number-classification clause of C05/C12: loop-free harnesses over all u64 /
//! i64 / f64 on the real `IntoValue for serde_json::Value`, `From<Value<V>>` and `Deserr for serde_json::Value`.
use crate::support::{arena::{self, *}, nd, rec::{self, *}};
use crate::{oblige, reach};
use deserr::{Deserr, IntoValue, Value, ValueKind, ValuePointerRef};
use serde_json::{Number, Value as JValue};

fn kind_is(a: ValueKind, b: ValueKind) -> bool { kind_idx(a) == kind_idx(b) }

/// integer literals that fit u64 are non-negative integers
pub fn json_u64() {
    rec::reset();
    let n = nd::u64();
    let v = JValue::Number(Number::from(n));
    oblige!(kind_is(v.kind(), ValueKind::Integer), "C13:kind_without_consuming_equals_kind_of_the_consumed_view");
    let iv = v.into_value();
    match &iv {
        Value::Integer(x) => { oblige!(*x == n, "C13:numbers_classified_as_serde_json_holds_them"); }
        _ => { oblige!(false, "C13:numbers_classified_as_serde_json_holds_them"); }
    }
    std::mem::forget(iv);
    // and back: From<Value> and Deserr for serde_json::Value
    let back = JValue::from(Value::<JValue>::Integer(n));
    oblige!(back.as_u64() == Some(n), "C13:from_value_gives_back_the_same_document");
    std::mem::forget(back);
    let o = ValuePointerRef::Origin;
    match <JValue as Deserr<Rec>>::deserialize_from_value::<JValue>(Value::Integer(n), o) {
        Ok(j) => { oblige!(j.as_u64() == Some(n) && rec::calls() == 0, "C13:deserr_impl_gives_back_the_same_document"); std::mem::forget(j); }
        Err(_) => { oblige!(false, "C13:deserr_impl_never_fails_on_a_document_serde_json_can_hold"); }
    }
}
/// negative integer literals that fit i64 are negative integers; non-negative ones are held (and seen) as non-negative
pub fn json_i64() {
    rec::reset();
    let i = nd::i64();
    let v = JValue::Number(Number::from(i));
    let want_neg = i < 0;
    reach!(want_neg, "reach:negative"); reach!(!want_neg, "reach:non_negative");
    oblige!(kind_is(v.kind(), if want_neg { ValueKind::NegativeInteger } else { ValueKind::Integer }), "C13:kind_without_consuming_equals_kind_of_the_consumed_view");
    // (the view is inspected by reference and then forgotten: dropping a Value<serde_json::Value> whose variant is symbolic
    // would send CBMC through serde_json's recursive drop glue)
    let iv = v.into_value();
    match &iv {
        Value::Integer(x) => { oblige!(!want_neg && *x == i as u64, "C13:numbers_classified_as_serde_json_holds_them"); }
        Value::NegativeInteger(x) => { oblige!(want_neg && *x == i, "C13:numbers_classified_as_serde_json_holds_them"); }
        _ => { oblige!(false, "C13:numbers_classified_as_serde_json_holds_them"); }
    }
    std::mem::forget(iv);
    let back = JValue::from(Value::<JValue>::NegativeInteger(i));
    oblige!(back.as_i64() == Some(i), "C13:from_value_gives_back_the_same_document");
    std::mem::forget(back);
    let o = ValuePointerRef::Origin;
    match <JValue as Deserr<Rec>>::deserialize_from_value::<JValue>(Value::NegativeInteger(i), o) {
        Ok(j) => { oblige!(j.as_i64() == Some(i) && rec::calls() == 0, "C13:deserr_impl_gives_back_the_same_document"); std::mem::forget(j); }
        Err(_) => { oblige!(false, "C13:deserr_impl_never_fails_on_a_document_serde_json_can_hold"); }
    }
}
/// everything else serde_json can hold is a float; what it cannot hold (NaN, infinities) is reported, never a panic
pub fn json_f64() {
    rec::reset();
    let f = nd::f64();
    let o = ValuePointerRef::Origin; let l = o.push_index(2);
    reach!(f.is_finite(), "reach:finite"); reach!(!f.is_finite(), "reach:not_finite");
    match Number::from_f64(f) {
        Some(num) => {
            oblige!(f.is_finite(), "C13:numbers_classified_as_serde_json_holds_them");
            let v = JValue::Number(num);
            oblige!(kind_is(v.kind(), ValueKind::Float), "C13:kind_without_consuming_equals_kind_of_the_consumed_view");
            let iv = v.into_value();
            match &iv {
                Value::Float(x) => { oblige!(x.to_bits() == f.to_bits(), "C13:numbers_classified_as_serde_json_holds_them"); }
                _ => { oblige!(false, "C13:numbers_classified_as_serde_json_holds_them"); }
            }
            std::mem::forget(iv);
        }
        None => { oblige!(!f.is_finite(), "C13:numbers_classified_as_serde_json_holds_them"); }
    }
    let back = JValue::from(Value::<JValue>::Float(f));
    oblige!(if f.is_finite() { back.is_f64() && back.as_f64().map(|x| x.to_bits()) == Some(f.to_bits()) } else { back.is_null() }, "C13:from_value_gives_back_the_same_document");   // held as a float: a whole-valued float is not turned into an integer
    std::mem::forget(back);
    match <JValue as Deserr<Rec>>::deserialize_from_value::<JValue>(Value::Float(f), l) {
        Ok(j) => { oblige!(f.is_finite() && j.is_f64() && j.as_f64().map(|x| x.to_bits()) == Some(f.to_bits()) && rec::calls() == 0, "C13:deserr_impl_gives_back_the_same_document"); std::mem::forget(j); }
        Err(e) => {
            oblige!(!f.is_finite(), "C13:deserr_impl_never_fails_on_a_document_serde_json_can_hold");
            oblige!(e.n == 1 && rec::calls() == 1 && e.ev[0].kind() == K_UNEXPECTED && e.ev[0].path() == Path::ROOT.idx(2), "C01,C04:exactly_one_report_at_the_given_location");
        }
    }
}
/// null and booleans
pub fn json_null_bool() {
    rec::reset();
    let b = nd::bool();
    let v = JValue::Bool(b);
    oblige!(kind_is(v.kind(), ValueKind::Boolean), "C13:kind_without_consuming_equals_kind_of_the_consumed_view");
    oblige!(matches!(v.into_value(), Value::Boolean(x) if x == b), "C13:numbers_classified_as_serde_json_holds_them");
    let n = JValue::Null;
    oblige!(kind_is(n.kind(), ValueKind::Null), "C13:kind_without_consuming_equals_kind_of_the_consumed_view");
    oblige!(matches!(n.into_value(), Value::Null), "C13:numbers_classified_as_serde_json_holds_them");
    let back = JValue::from(Value::<JValue>::Boolean(b));
    oblige!(back.as_bool() == Some(b), "C13:from_value_gives_back_the_same_document");
    std::mem::forget(back);
    let o = ValuePointerRef::Origin;
    match <JValue as Deserr<Rec>>::deserialize_from_value::<JValue>(Value::Boolean(b), o) {
        Ok(j) => { oblige!(j.as_bool() == Some(b) && rec::calls() == 0, "C13:deserr_impl_gives_back_the_same_document"); std::mem::forget(j); }
        Err(_) => { oblige!(false, "C13:deserr_impl_never_fails_on_a_document_serde_json_can_hold"); }
    }
    match <JValue as Deserr<Rec>>::deserialize_from_value::<JValue>(Value::Null, o) {
        Ok(j) => { oblige!(j.is_null() && rec::calls() == 0, "C13:deserr_impl_gives_back_the_same_document"); std::mem::forget(j); }
        Err(_) => { oblige!(false, "C13:deserr_impl_never_fails_on_a_document_serde_json_can_hold"); }
    }
}


// ---- C13, container part: BOUNDED (native execution only: heap documents with recursive drop glue are out of CBMC's budget here) ----
#[cfg(not(kani))]
fn gen_doc(depth: u8) -> JValue {
    let arity = if depth > 0 { 8 } else { 6 };
    match nd::below(arity) {
        0 => JValue::Null,
        1 => JValue::Bool(nd::bool()),
        2 => JValue::Number(Number::from([0u64, 7, (1u64 << 53) + 1, u64::MAX][nd::below(4) as usize])),
        3 => JValue::Number(Number::from([-1i64, -(1i64 << 53) - 1, i64::MIN][nd::below(3) as usize])),
        4 => JValue::Number(Number::from_f64([1.5f64, -0.0, f64::MIN_POSITIVE / 4.0, 1e300, 18446744073709551616.0][nd::below(5) as usize]).unwrap()),
        5 => JValue::String(["", "a\"b\u{e9}"][nd::below(2) as usize].to_string()),
        6 => { let n = nd::below(3); let mut v = Vec::new(); for _ in 0..n { v.push(gen_doc(depth - 1)); } JValue::Array(v) }
        _ => { let n = nd::below(3); let mut m = serde_json::Map::new(); for i in 0..n { m.insert(["k", "l l"][i as usize].to_string(), gen_doc(depth - 1)); } JValue::Object(m) }
    }
}
#[cfg(not(kani))]
fn same_doc(a: &JValue, b: &JValue) -> bool {
    // structural equality that distinguishes -0.0 from 0.0 and u64 from f64 (serde_json's == on Number does too, except for the sign of zero)
    match (a, b) {
        (JValue::Number(x), JValue::Number(y)) => x.is_u64() == y.is_u64() && x.is_i64() == y.is_i64() && x.is_f64() == y.is_f64() && x.as_u64() == y.as_u64() && x.as_i64() == y.as_i64() && (!x.is_f64() || x.as_f64().map(|f| f.to_bits()) == y.as_f64().map(|f| f.to_bits())),
        (JValue::Array(x), JValue::Array(y)) => x.len() == y.len() && x.iter().zip(y.iter()).all(|(p, q)| same_doc(p, q)),
        (JValue::Object(x), JValue::Object(y)) => x.len() == y.len() && x.iter().zip(y.iter()).all(|((k1, p), (k2, q))| k1 == k2 && same_doc(p, q)),
        _ => a == b,
    }
}
#[cfg(not(kani))]
fn kinds_agree(v: &JValue) -> bool {
    let k = v.kind();
    let ok_here = kind_is(k, v.clone().into_value().kind());
    ok_here && match v { JValue::Array(a) => a.iter().all(kinds_agree), JValue::Object(m) => m.values().all(kinds_agree), _ => true }
}
/// every document of nesting depth <= 2 and width <= 2 over the boundary scalars of the statement
#[cfg(not(kani))]
pub fn json_documents() {
    rec::reset();
    let doc = gen_doc(2);
    oblige!(kinds_agree(&doc), "C13:kind_without_consuming_equals_kind_of_the_consumed_view");
    let back = JValue::from(doc.clone().into_value());
    oblige!(same_doc(&back, &doc), "C13:from_value_gives_back_the_same_document");
    match deserr::deserialize::<JValue, JValue, Rec>(doc.clone()) {
        Ok(j) => { oblige!(same_doc(&j, &doc) && rec::calls() == 0, "C13:deserr_impl_gives_back_the_same_document"); }
        Err(_) => { oblige!(false, "C13:deserr_impl_never_fails_on_a_document_serde_json_can_hold"); }
    }
}
#[cfg(kani)]
pub fn json_documents() {}

/// LARGE documents (bounded, native only): many containers side by side and deep chains -- an implementation that counts, caps or
/// budgets containers cannot hide behind the small exhaustive domain of json_documents
#[cfg(not(kani))]
pub fn json_large_documents() {
    rec::reset();
    let shape = nd::below(6);
    let n = match nd::below(8) { 0 => 1usize, 1 => 126, 2 => 127, 3 => 128, 4 => 129, 5 => 300, 6 => 1000, _ => 4097 };
    let leaf = |i: usize| -> JValue { match i % 4 { 0 => serde_json::json!({ "id": i }), 1 => serde_json::json!({}), 2 => serde_json::json!([i, {}]), _ => serde_json::json!([]) } };
    let doc: JValue = match shape {
        0 => JValue::Array((0..n).map(|i| serde_json::json!({ "id": i })).collect()),                    // n records in a list
        1 => JValue::Object((0..n).map(|i| (format!("k{i}"), serde_json::json!({ "v": [i] }))).collect()), // n members, each an object holding a list
        2 => JValue::Array((0..n).map(leaf).collect()),                                                  // mixed empty / non-empty containers
        3 => { let mut d = serde_json::json!(7); let depth = n.min(300); for i in 0..depth { d = if i % 2 == 0 { JValue::Array(vec![d]) } else { serde_json::json!({ "k": d }) }; } d } // a chain (<= 300 deep)
        4 => JValue::Array((0..n.min(300)).map(|i| JValue::Array((0..3).map(|j| serde_json::json!({ "a": { "b": i + j } })).collect())).collect()), // depth 4, many objects
        _ => JValue::Array((0..n).map(|i| JValue::Array(vec![serde_json::json!(i)])).collect()),         // n lists in a list
    };
    oblige!(kinds_agree(&doc), "C13:kind_without_consuming_equals_kind_of_the_consumed_view");
    let back = JValue::from(doc.clone().into_value());
    oblige!(back == doc, "C13:from_value_gives_back_the_same_document");
    match deserr::deserialize::<JValue, JValue, Rec>(doc.clone()) {
        Ok(j) => { oblige!(j == doc && rec::calls() == 0, "C13:deserr_impl_gives_back_the_same_document"); }
        Err(_) => { oblige!(false, "C13:deserr_impl_never_fails_on_a_document_serde_json_can_hold"); }
    }
}
#[cfg(kani)]
pub fn json_large_documents() {}

/// strings (and keys) whose TEXT looks like another kind of JSON value, or needs escaping: they stay strings through both routes
#[cfg(not(kani))]
pub fn json_string_values() {
    rec::reset();
    const POOL: [&str; 18] = ["42", "-0", "1e3", "1.20", "75011", "true", "false", "null", "[]", "{}", " 1", "0x10", "NaN", "\"q\"", "\u{1f980}", "a\u{0}b", "-", "18446744073709551616"];
    let s = POOL[nd::below(18) as usize].to_string();
    let long: String = std::iter::repeat('7').take(100).collect();
    let s = if nd::below(19) == 0 { long } else { s };
    let doc: JValue = match nd::below(5) { 0 => JValue::String(s), 1 => JValue::Array(vec![JValue::String(s)]), 2 => serde_json::json!({ "k": s }), 3 => { let mut m = serde_json::Map::new(); m.insert(s.clone(), JValue::String(s)); JValue::Object(m) }
                                          _ => serde_json::json!([{ "k": [s] }]) };
    oblige!(kinds_agree(&doc), "C13:kind_without_consuming_equals_kind_of_the_consumed_view");
    let back = JValue::from(doc.clone().into_value());
    oblige!(same_doc(&back, &doc), "C13:from_value_gives_back_the_same_document");
    match deserr::deserialize::<JValue, JValue, Rec>(doc.clone()) {
        Ok(j) => { oblige!(same_doc(&j, &doc) && rec::calls() == 0, "C13:deserr_impl_gives_back_the_same_document"); }
        Err(_) => { oblige!(false, "C13:deserr_impl_never_fails_on_a_document_serde_json_can_hold"); }
    }
}
#[cfg(kani)]
pub fn json_string_values() {}

pub fn registry() -> Vec<(&'static str, crate::Body)> {
    vec![("json_u64", json_u64 as crate::Body), ("json_i64", json_i64), ("json_f64", json_f64), ("json_null_bool", json_null_bool), ("json_documents", json_documents), ("json_large_documents", json_large_documents), ("json_string_values", json_string_values)]
}

#[cfg(kani)]
mod proofs {
    macro_rules! proof { ($($n:ident),*) => { $( mod $n { #[kani::proof] #[kani::unwind(10)] #[kani::stub(alloc::fmt::format, crate::fake_format)] fn check() { super::super::$n() } } )* } }
    proof!(json_u64, json_i64, json_f64, json_null_bool);
}
